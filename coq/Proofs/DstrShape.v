(* Proofs/DstrShape.v — what survives the round trip over ANY carrier, without
   any law of arithmetic or of `==` (beyond 1 <> 0 and 0 == 0, for the arc
   flags): every segment Path.d writes is read back as a segment of the same
   kind with the same arc flags, in the same order; nothing else appears,
   except possibly ONE closing Line when a 'Z' was written.  This is the part
   of C01 that holds verbatim for binary64 in the relative forms, where the
   coordinates themselves drift by rounding.

   The only thing asked is that no elliptical arc collapses: the parser omits
   (or refuses, see C02) an arc whose end point `==` the pen position, and in
   relative form the pen position is a rounded sum.  [arcs_apart] states it on
   the pen positions, computed by the same additions the parser performs. *)
From Coq Require Import List Bool Arith Lia.
From SVP Require Import Base.Num Base.Cplx Model.Parse Model.Dstr
     Proofs.ParseRefine Proofs.DstrRun.
Import ListNotations.

Section Shape.
  Context {K : Type} (N : Num K).
  Hypothesis F1 : eqb N (one N) (zero N) = false.
  Hypothesis F0 : eqb N (zero N) (zero N) = true.
  Variables none_ok coinc_ok : bool.
  Variables sfix mfix useST rel : bool.
  Notation pt := (Cplx K).
  Notation pstate := (@pstate K).
  Notation exec_cmd := (exec_cmd N none_ok coinc_ok).
  Notation run_cmds := (run_cmds N none_ok coinc_ok).

  (* radii of arcs are non-zero (Arc.__init__ would not have built the object) *)
  Definition radii_ok (g : seg K) : bool :=
    match g with
    | Arc _ r _ _ _ _ => negb (eqb N (re r) (zero N)) && negb (eqb N (im r) (zero N))
    | _ => true
    end.

  Section Body.
  Variables (sc : bool) (endp : pt).
  Notation d_loop := (d_loop N sfix mfix useST rel sc endp).

  (* the parser's pen after the optional 'M', and after the segment *)
  Definition pen_move (pos : option pt) (cur ss : pt) : pt :=
    if need_move N sc endp pos ss
    then (if negb rel then move_arg N rel pos ss else cadd N cur (move_arg N rel pos ss))
    else cur.
  Definition pen_end (cur1 : pt) (g : seg K) : pt :=
    raise N (negb rel) cur1 (lower N rel (seg_start g) (seg_end g)).
  Definition is_arc (g : seg K) : bool := match g with Arc _ _ _ _ _ _ => true | _ => false end.
  Fixpoint arcs_apart (cur : pt) (pos : option pt) (segs : list (seg K)) : bool :=
    match segs with
    | [] => true
    | g :: r =>
        let cur1 := pen_move pos cur (seg_start g) in
        let e' := pen_end cur1 g in
        (if is_arc g then negb (ceqb N cur1 e') else true)
        && arcs_apart e' (Some (seg_end g)) r
    end.

  (* the parser can always compute the control point of S / T *)
  Definition headok (st : pstate) : Prop :=
    match p_cmd st with
    | Some cC | Some cS => exists s c1 c2 e r, p_segs st = Cubic s c1 c2 e :: r
    | Some cQ | Some cT => exists s c e r, p_segs st = Quad s c e :: r
    | Some _ => True
    | None => False
    end.

  Lemma smooth_c1_ok st : headok st -> exists c1, smooth_c1 N none_ok st = Ok c1.
  Proof.
    unfold headok, smooth_c1. destruct (p_cmd st) as [[]|]; intros H;
      try (exfalso; exact H); try (cbn; eexists; reflexivity).
    - destruct H as (s & c1 & c2 & e & r & ->). cbn. eauto.
    - destruct H as (s & c1 & c2 & e & r & ->). cbn. eauto.
  Qed.
  Lemma t_ctrl_ok st : headok st -> exists c, t_ctrl N none_ok st = Ok c.
  Proof.
    unfold headok, t_ctrl. destruct (p_cmd st) as [[]|]; intros H;
      try (exfalso; exact H); try (cbn; eexists; reflexivity).
    - destruct H as (s & c & e & r & ->). cbn. eauto.
    - destruct H as (s & c & e & r & ->). cbn. eauto.
  Qed.

  Lemma flag_rt (b : bool) : flag_of N (if b then one N else zero N) = b.
  Proof. unfold flag_of. destruct b; [rewrite F1|rewrite F0]; reflexivity. Qed.

  Lemma seg_shape prev g st :
    headok st -> radii_ok g = true ->
    (is_arc g = true -> ceqb N (p_cur st) (pen_end (p_cur st) g) = false) ->
    exists st' g',
      exec_cmd (emit_seg N useST sfix rel prev g) st = Ok st'
      /\ p_segs st' = g' :: p_segs st /\ shape_of g' = shape_of g
      /\ p_cur st' = pen_end (p_cur st) g /\ p_start st' = p_start st /\ headok st'.
  Proof.
    intros H R A. unfold pen_end in *.
    destruct g as [s e|s c e|s c1 c2 e|s r rot la sw e]; cbn [emit_seg seg_start seg_end] in *.
    - rewrite exec_line. cbn zeta. eexists; eexists. split; [reflexivity|].
      cbn [p_segs p_cur p_start]. repeat split.
    - destruct (useST && quad_smooth N sfix prev s c).
      + destruct (t_ctrl_ok st H) as (c' & Ec). rewrite exec_t, Ec. cbn zeta.
        eexists; eexists. split; [reflexivity|]. cbn [p_segs p_cur p_start].
        repeat split. unfold headok. cbn. eauto 8.
      + rewrite exec_quad. cbn zeta. eexists; eexists. split; [reflexivity|].
        cbn [p_segs p_cur p_start]. repeat split. unfold headok. cbn. eauto 8.
    - destruct (useST && cubic_smooth N sfix prev s c1).
      + destruct (smooth_c1_ok st H) as (c' & Ec). rewrite exec_smooth, Ec. cbn zeta.
        eexists; eexists. split; [reflexivity|]. cbn [p_segs p_cur p_start].
        repeat split. unfold headok. cbn. eauto 8.
      + rewrite exec_curve. cbn zeta. eexists; eexists. split; [reflexivity|].
        cbn [p_segs p_cur p_start]. repeat split. unfold headok. cbn. eauto 8.
    - rewrite exec_arc. cbn zeta. cbn [radii_ok] in R. apply andb_true_iff in R.
      destruct R as [R1 R2]. apply negb_true_iff in R1, R2. specialize (A eq_refl).
      unfold arc_or_line. rewrite !flag_rt, R1, R2, A. cbn [orb].
      destruct coinc_ok; (eexists; eexists; split; [reflexivity|];
        cbn [p_segs p_cur p_start app]; repeat split).
  Qed.

  Lemma move_shape pos ss st :
    exists st1, exec_cmd (MoveTo (negb rel) [move_arg N rel pos ss]) st = Ok st1
      /\ p_cur st1 = (if negb rel then move_arg N rel pos ss else cadd N (p_cur st) (move_arg N rel pos ss))
      /\ p_segs st1 = p_segs st /\ headok st1 /\ p_start st1 <> None.
  Proof.
    rewrite exec_move. cbn zeta. eexists. split; [reflexivity|]. cbn [p_cur p_segs p_start].
    repeat split. discriminate.
  Qed.

  (* [pos = None] exactly before the first segment, where an 'M' is written *)
  Definition ready (pos : option pt) (st : pstate) : Prop :=
    match pos with None => True | Some _ => headok st /\ p_start st <> None end.

  Lemma loop_shape : forall segs pos prev st,
    ready pos st -> forallb radii_ok segs = true -> arcs_apart (p_cur st) pos segs = true ->
    exists st' q,
      run_cmds (d_loop pos prev segs) st = Ok st'
      /\ p_segs st' = rev q ++ p_segs st /\ map shape_of q = map shape_of segs
      /\ (segs <> [] -> p_start st' <> None).
  Proof.
    induction segs as [|g r IH]; intros pos prev st Rd W A.
    - exists st, []. repeat split. intros H. destruct (H eq_refl).
    - cbn [forallb] in W. apply andb_true_iff in W. destruct W as [Wg Wr].
      cbn [arcs_apart] in A. apply andb_true_iff in A. destruct A as [Ag Ar].
      cbn [Dstr.d_loop]. unfold pen_move in Ag, Ar.
      destruct (need_move N sc endp pos (seg_start g)) eqn:Mv.
      + destruct (move_shape pos (seg_start g) st) as (st1 & E1 & C1 & S1 & H1 & P1).
        rewrite <- C1 in Ag, Ar.
        destruct (seg_shape (if true && mfix then None else prev) g st1 H1 Wg) as (st2 & g' & E2 & S2 & Sh & C2 & P2 & H2).
        { intros Ia. rewrite Ia in Ag. apply negb_true_iff in Ag. exact Ag. }
        rewrite <- C2 in Ar.
        destruct (IH (Some (seg_end g)) (Some g) st2) as (st' & q & R & S & Shq & P); try assumption.
        { split; [exact H2|]. rewrite P2. exact P1. }
        exists st', (g' :: q). split; [|split; [|split]].
        * cbn [app DstrRun.run_cmds]. rewrite E1, E2. exact R.
        * rewrite S, S2, S1. cbn [rev]. rewrite <- app_assoc. reflexivity.
        * cbn [map]. rewrite Sh, Shq. reflexivity.
        * intros _. destruct r as [|g2 r2]; [|apply P; discriminate].
          cbn in R. inversion R; subst. rewrite P2. exact P1.
      + destruct pos as [cp|]; [|discriminate Mv]. destruct Rd as [H0 P0].
        destruct (seg_shape prev g st H0 Wg) as (st2 & g' & E2 & S2 & Sh & C2 & P2 & H2).
        { intros Ia. rewrite Ia in Ag. apply negb_true_iff in Ag. exact Ag. }
        rewrite <- C2 in Ar.
        destruct (IH (Some (seg_end g)) (Some g) st2) as (st' & q & R & S & Shq & P); try assumption.
        { split; [exact H2|]. rewrite P2. exact P0. }
        exists st', (g' :: q). split; [|split; [|split]].
        * cbn [app DstrRun.run_cmds andb]. rewrite E2. exact R.
        * rewrite S, S2. cbn [rev]. rewrite <- app_assoc. reflexivity.
        * cbn [map]. rewrite Sh, Shq. reflexivity.
        * intros _. destruct r as [|g2 r2]; [|apply P; discriminate].
          cbn in R. inversion R; subst. rewrite P2. exact P0.
  Qed.
  End Body.

  Lemma emit_single' prev g : single (emit_seg N useST sfix rel prev g) = true.
  Proof.
    destruct g; cbn [emit_seg]; try reflexivity.
    - destruct (useST && quad_smooth N sfix prev s c); reflexivity.
    - destruct (useST && cubic_smooth N sfix prev s c1); reflexivity.
  Qed.
  Lemma d_loop_single' sc endp : forall segs pos prev,
    forallb single (d_loop N sfix mfix useST rel sc endp pos prev segs) = true.
  Proof.
    induction segs as [|g r IH]; intros pos prev; [reflexivity|].
    cbn [Dstr.d_loop]. rewrite forallb_app. cbn [forallb]. rewrite emit_single', IH.
    destruct (need_move N sc endp pos (seg_start g)); reflexivity.
  Qed.

  Variables zfix closeZ : bool.

  (* no arc of the path collapses under the rounding of the relative offsets *)
  Definition no_arc_collapse (p : list (seg K)) : bool :=
    match p with
    | [] => true
    | a :: r => arcs_apart (self_closed_of N closeZ a r) (seg_end (last_seg a r)) (c0 N) None
                           (d_segments N zfix closeZ p)
    end.

  Theorem roundtrip_shape p :
    forallb radii_ok p = true -> d_segments N zfix closeZ p <> [] -> no_arc_collapse p = true ->
    exists q cl,
      roundtrip N none_ok coinc_ok zfix sfix mfix useST closeZ rel p = Ok q
      /\ map shape_of q = map shape_of (d_segments N zfix closeZ p) ++ cl
      /\ (cl = [] \/ (cl = [KLine] /\ closeZ = true)).
  Proof.
    intros W NE A. destruct p as [|a r]; [destruct (NE eq_refl)|].
    unfold roundtrip, d_tokens. cbn [d_cmds]. cbn [no_arc_collapse] in A.
    set (sc := self_closed_of N closeZ a r) in *.
    set (endp := seg_end (last_seg a r)) in *.
    set (segs := d_segments N zfix closeZ (a :: r)) in *.
    assert (Ws : forallb radii_ok segs = true).
    { subst segs. cbn [d_segments]. destruct (drops_last N zfix closeZ a r); [|exact W].
      rewrite forallb_forall in *. intros x Hx. apply W.
      assert (Sp : a :: r = removelast (a :: r) ++ [last (a :: r) a])
        by (apply app_removelast_last; discriminate).
      rewrite Sp. apply in_or_app. left. exact Hx. }
    destruct (loop_shape sc endp segs None None (init_state (c0 N)) I Ws A)
      as (st' & q & R & S & Sh & P).
    specialize (P NE).
    assert (SG : forallb single (d_loop N sfix mfix useST rel sc endp None None segs
                                 ++ (if sc then [Close (negb rel)] else [])) = true).
    { rewrite forallb_app, d_loop_single'. destruct sc; reflexivity. }
    destruct sc eqn:Sc.
    - destruct (p_start st') as [sp|] eqn:Sp; [|destruct (P eq_refl)].
      assert (Cz : closeZ = true).
      { unfold self_closed_of in Sc. destruct closeZ; [reflexivity|discriminate Sc]. }
      destruct (ceqb N (p_cur st') sp) eqn:Cq.
      + exists q, []. split; [|split; [rewrite app_nil_r; exact Sh|left; reflexivity]].
        rewrite (impl_parse_run_cmds N none_ok coinc_ok _ (c0 N)
                   (mkP None (negb rel) sp (Some sp) (p_segs st')) SG).
        * cbn [p_segs]. rewrite S. cbn [init_state p_segs]. rewrite app_nil_r, rev_involutive. reflexivity.
        * rewrite run_cmds_app, R. cbn [DstrRun.run_cmds]. rewrite exec_close, Sp, Cq. reflexivity.
      + exists (q ++ [Line (p_cur st') sp]), [KLine].
        split; [|split; [rewrite map_app, Sh; reflexivity|right; split; [reflexivity|exact Cz]]].
        rewrite (impl_parse_run_cmds N none_ok coinc_ok _ (c0 N)
                   (mkP None (negb rel) sp (Some sp) (Line (p_cur st') sp :: p_segs st')) SG).
        * cbn [p_segs]. rewrite S. cbn [init_state p_segs rev]. rewrite app_nil_r, rev_involutive. reflexivity.
        * rewrite run_cmds_app, R. cbn [DstrRun.run_cmds]. rewrite exec_close, Sp, Cq. reflexivity.
    - exists q, []. split; [|split; [rewrite app_nil_r; exact Sh|left; reflexivity]].
      rewrite (impl_parse_run_cmds N none_ok coinc_ok _ (c0 N) st' SG).
      + rewrite S. cbn [init_state p_segs]. rewrite app_nil_r, rev_involutive. reflexivity.
      + rewrite app_nil_r. exact R.
  Qed.
End Shape.
