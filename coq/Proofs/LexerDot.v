(* Proofs/LexerDot.v — the repaired number pattern
     FLOAT_RE_DOT = [-+]?(?:[0-9]+\.?[0-9]*|\.[0-9]+)(?:[eE][-+]?[0-9]+)?
   (Model/Lexer.v, [float_re true]): what Proofs/LexerScan.v and
   Proofs/LexerRender.v prove for the pinned pattern, proved for this one.
   * match_re FLOAT_RE_DOT (Python's backtracking priorities, with the
     alternation) = a deterministic scanner;
   * lexing a rendering gives back the tokens, for numerals of the full SVG
     number shape  [sign] (digits [. [digits]] | . digits) [e|E [sign] digits]
     — now including the trailing-dot spellings "1." and "1.e3" — and the same
     family of separator policies;
   * on strings without a "digits." not followed by a digit the two patterns
     tokenize alike is NOT claimed in general; what is proved is that both
     give back the tokens of every rendering covered by the old theorem
     (tokenize_re_dot_old_renderings). *)
From Coq Require Import Ascii String List Bool Arith Lia QArith Qcanon.
From SVP Require Import Base.Num Base.Cplx Model.Parse Model.Lexer
     Proofs.LexerScan Proofs.LexerRender.
Import ListNotations.
Local Open Scope nat_scope.
Local Open Scope char_scope.
Local Open Scope list_scope.

(* ------------------------------------------------------------------ *)
(* the scanner                                                         *)

(* (?:[0-9]+\.?[0-9]*|\.[0-9]+) — the text after it, or None *)
Definition scan_mant_dot (s1 : list ascii) : option (list ascii) :=
  let s2 := snd (take_while is_digit s1) in
  match fst (take_while is_digit s1) with
  | _ :: _ =>
      match s2 with
      | c :: r => if is_dot c then Some (snd (take_while is_digit r)) else Some s2
      | [] => Some s2
      end
  | [] =>
      match s1 with
      | c :: r => if is_dot c then
                    match fst (take_while is_digit r) with
                    | [] => None
                    | _ :: _ => Some (snd (take_while is_digit r))
                    end
                  else None
      | [] => None
      end
  end.
Definition scan_float_dot (s : list ascii) : option (list ascii) :=
  match scan_mant_dot (skip_sign s) with
  | Some s3 => Some (scan_exp s3)
  | None => None
  end.

Lemma rm_alt {A} a b s (k : list ascii -> option A) :
  rmatch (RAlt a b) s k = match rmatch a s k with Some r => Some r | None => rmatch b s k end.
Proof. reflexivity. Qed.

Definition RE_A : regex := RSeq (RPlus is_digit) (RSeq (ROpt (RCls is_dot)) (RStar is_digit)).
Definition RE_B : regex := RSeq (RCls is_dot) (RPlus is_digit).

Lemma match_re_dot_unfold s :
  match_re FLOAT_RE_DOT s
  = rmatch (ROpt (RCls is_sign)) s (fun s1 => rmatch (RAlt RE_A RE_B) s1 kD).
Proof. reflexivity. Qed.

(* after the digits and the optional dot: [0-9]* then the exponent — cannot fail *)
Definition after_dot (s : list ascii) : list ascii :=
  match s with
  | c :: r => if is_dot c then snd (take_while is_digit r) else snd (take_while is_digit s)
  | [] => []
  end.
Lemma kStar_scan s :
  rmatch (RStar is_digit) s kD = Some (scan_exp (snd (take_while is_digit s))).
Proof. cbn [rmatch]. apply (star_k_total is_digit kD scan_exp). exact kD_scan. Qed.
Lemma kOD_scan s :
  rmatch (RSeq (ROpt (RCls is_dot)) (RStar is_digit)) s kD = Some (scan_exp (after_dot s)).
Proof.
  rewrite rm_seq, rm_opt, rm_cls. unfold after_dot. destruct s as [|c r].
  - rewrite kStar_scan. reflexivity.
  - destruct (is_dot c); rewrite kStar_scan; reflexivity.
Qed.
Lemma reA_scan s :
  rmatch RE_A s kD = match fst (take_while is_digit s) with
                     | [] => None
                     | _ :: _ => Some (scan_exp (after_dot (snd (take_while is_digit s))))
                     end.
Proof.
  unfold RE_A. rewrite rm_seq. destruct s as [|c s']; [reflexivity|].
  cbn [rmatch take_while]. destruct (is_digit c); [|reflexivity].
  rewrite (star_k_total is_digit _ (fun x => scan_exp (after_dot x))); [|intros x; apply kOD_scan].
  destruct (take_while is_digit s'); reflexivity.
Qed.
Lemma reB_scan s :
  rmatch RE_B s kD = match s with
                     | c :: r => if is_dot c then
                                   match fst (take_while is_digit r) with
                                   | [] => None
                                   | _ :: _ => Some (scan_exp (snd (take_while is_digit r)))
                                   end
                                 else None
                     | [] => None
                     end.
Proof.
  unfold RE_B. rewrite rm_seq, rm_cls. destruct s as [|c r]; [reflexivity|].
  destruct (is_dot c); [|reflexivity]. exact (kC_scan r).
Qed.

Lemma alt_scan s1 :
  rmatch (RAlt RE_A RE_B) s1 kD
  = match scan_mant_dot s1 with Some s3 => Some (scan_exp s3) | None => None end.
Proof.
  rewrite rm_alt, reA_scan, reB_scan. unfold scan_mant_dot.
  pose proof (take_while_stop is_digit s1) as Stop.
  destruct (take_while is_digit s1) as [ip s2] eqn:E. cbn [fst snd] in *.
  destruct ip as [|d ip'].
  - destruct s1 as [|c r]; [reflexivity|]. destruct (is_dot c); [|reflexivity].
    destruct (fst (take_while is_digit r)); reflexivity.
  - unfold after_dot. destruct s2 as [|c r]; [reflexivity|].
    destruct (is_dot c); [reflexivity|]. cbn [take_while]. rewrite Stop. reflexivity.
Qed.

(* FLOAT_RE_DOT.match (backtracking semantics) = the scanner *)
Theorem match_re_dot_scan s : match_re FLOAT_RE_DOT s = scan_float_dot s.
Proof.
  rewrite match_re_dot_unfold, rm_opt, rm_cls. unfold scan_float_dot, skip_sign.
  destruct s as [|c r].
  - rewrite alt_scan. reflexivity.
  - destruct (is_sign c) eqn:Es.
    + rewrite alt_scan. destruct (scan_mant_dot r); [reflexivity|].
      rewrite alt_scan. unfold scan_mant_dot. cbn [take_while].
      rewrite (sign_not_digit _ Es). cbn [fst snd]. rewrite (sign_not_dot _ Es). reflexivity.
    + rewrite alt_scan. reflexivity.
Qed.

(* the pinned pattern, through the generic tokenizer *)
Lemma match_re_old s : match_re FLOAT_RE s = match_float s.
Proof. reflexivity. Qed.

(* ------------------------------------------------------------------ *)
(* a match is a non-empty prefix                                       *)

Lemma scan_mant_dot_suffix s s3 :
  scan_mant_dot s = Some s3 -> exists pre, s = pre ++ s3 /\ pre <> [].
Proof.
  unfold scan_mant_dot. pose proof (take_while_app is_digit s) as H.
  destruct (take_while is_digit s) as [ip s2]. cbn [fst snd] in *.
  destruct ip as [|d ip'].
  - destruct s as [|c r]; [discriminate|]. destruct (is_dot c); [|discriminate].
    pose proof (take_while_app is_digit r) as Hr.
    destruct (take_while is_digit r) as [fp s3']. cbn [fst snd] in *.
    destruct fp as [|f fp']; [discriminate|]. intros E. inversion E. subst s3'.
    exists (c :: f :: fp'). split; [|discriminate]. cbn. cbn in Hr. rewrite Hr. reflexivity.
  - destruct s2 as [|c r].
    + intros E. inversion E. exists (d :: ip'). split; [symmetry; exact H|discriminate].
    + destruct (is_dot c).
      * pose proof (take_while_app is_digit r) as Hr.
        intros E. inversion E.
        exists ((d :: ip') ++ c :: fst (take_while is_digit r)). split; [|discriminate].
        rewrite <- app_assoc. cbn [app]. rewrite Hr. symmetry. exact H.
      * intros E. inversion E. exists (d :: ip'). split; [symmetry; exact H|discriminate].
Qed.

Lemma scan_float_dot_suffix s rest :
  scan_float_dot s = Some rest -> exists pre, s = pre ++ rest /\ pre <> [].
Proof.
  unfold scan_float_dot. destruct (scan_mant_dot (skip_sign s)) as [s3|] eqn:E; [|discriminate].
  intros H. inversion H. subst rest.
  destruct (scan_mant_dot_suffix _ _ E) as (pre & E1 & NE).
  destruct (scan_exp_suffix s3) as (pe & E2).
  unfold skip_sign in E1. destruct s as [|c r].
  - destruct pre; [congruence|discriminate].
  - destruct (is_sign c).
    + exists (c :: pre ++ pe). split; [|discriminate].
      cbn. rewrite <- app_assoc, <- E2, <- E1. reflexivity.
    + exists (pre ++ pe). split; [|destruct pre; [congruence|discriminate]].
      rewrite <- app_assoc, <- E2. exact E1.
Qed.

Lemma scan_float_dot_nonstart c s :
  is_digit c = false -> is_sign c = false -> is_dot c = false -> scan_float_dot (c :: s) = None.
Proof.
  intros Hd Hs Ht. unfold scan_float_dot, skip_sign. rewrite Hs. unfold scan_mant_dot.
  cbn [take_while]. rewrite Hd. cbn [fst snd]. rewrite Ht. reflexivity.
Qed.

(* ================================================================== *)
(* the tokenizer over any pattern that is a prefix scanner             *)
(* ================================================================== *)
Section AnyPattern.
  Variable r : regex.
  Variable scan : list ascii -> option (list ascii).
  Hypothesis match_scan : forall s, match_re r s = scan s.
  Hypothesis scan_suffix : forall s rest, scan s = Some rest -> exists pre, s = pre ++ rest /\ pre <> [].
  Hypothesis scan_nonstart : forall c s,
      is_digit c = false -> is_sign c = false -> is_dot c = false -> scan (c :: s) = None.

  Lemma findall_re_fuel_enough : forall fuel s, length s <= fuel ->
    findall_re_fuel r fuel s = findall_re_fuel r (length s) s.
  Proof.
    induction fuel as [fuel IH] using lt_wf_ind. intros s Hs.
    destruct s as [|c s']; [destruct fuel; reflexivity|].
    destruct fuel as [|f]; [cbn in Hs; lia|].
    cbn [findall_re_fuel length]. destruct (match_re r (c :: s')) as [rest|] eqn:E.
    - rewrite match_scan in E. destruct (scan_suffix _ _ E) as (pre & E1 & NE).
      assert (Lr : length rest < length (c :: s')).
      { rewrite E1, app_length. destruct pre; [congruence|cbn; lia]. }
      cbn in Hs, Lr. f_equal.
      rewrite (IH f) by lia. rewrite (IH (length s')) by lia. reflexivity.
    - cbn in Hs. rewrite (IH f) by lia. reflexivity.
  Qed.

  Lemma findall_re_skip c s : scan (c :: s) = None -> findall_re r (c :: s) = findall_re r s.
  Proof.
    intros E. unfold findall_re. cbn [findall_re_fuel length]. rewrite match_scan, E. reflexivity.
  Qed.
  Lemma findall_re_match pre rest :
    pre <> [] -> scan (pre ++ rest) = Some rest -> findall_re r (pre ++ rest) = pre :: findall_re r rest.
  Proof.
    intros NE E. destruct pre as [|c pre']; [congruence|].
    unfold findall_re at 1.
    change (findall_re_fuel r (length ((c :: pre') ++ rest)) ((c :: pre') ++ rest))
      with (match match_re r ((c :: pre') ++ rest) with
            | Some x => firstn (length ((c :: pre') ++ rest) - length x) ((c :: pre') ++ rest)
                          :: findall_re_fuel r (length (pre' ++ rest)) x
            | None => findall_re_fuel r (length (pre' ++ rest)) (pre' ++ rest)
            end).
    rewrite match_scan, E, firstn_prefix. f_equal.
    apply findall_re_fuel_enough. rewrite app_length. lia.
  Qed.
  Lemma findall_re_seps s x : forallb is_sepchar s = true -> findall_re r (s ++ x) = findall_re r x.
  Proof.
    induction s as [|c s IH]; [reflexivity|]. cbn [forallb app]. intros H.
    apply andb_true_iff in H. destruct H as [Hc Hs].
    destruct (sepchar_props c Hc) as (A & B & C & _).
    rewrite findall_re_skip; [apply IH, Hs|]. apply scan_nonstart; assumption.
  Qed.

  Lemma piece_tokens_re_nocmd x : nocmd x = true -> piece_tokens_re r x = map LNum (findall_re r x).
  Proof.
    intros H. unfold piece_tokens_re. destruct x as [|c [|d r0]]; try reflexivity.
    cbn in H. rewrite andb_true_r in H. apply negb_true_iff in H. rewrite H. reflexivity.
  Qed.
  Lemma piece_tokens_re_cmd c : is_cmd c = true -> piece_tokens_re r [c] = [LCmd c].
  Proof.
    intros H. unfold piece_tokens_re. rewrite H.
    rewrite findall_re_skip; [reflexivity|].
    apply scan_nonstart; [apply cmd_not_digit|apply cmd_not_sign|apply cmd_not_dot]; exact H.
  Qed.
  Lemma tokenize_re_cmd x c s :
    nocmd x = true -> is_cmd c = true ->
    tokenize_re r (x ++ c :: s) = map LNum (findall_re r x) ++ LCmd c :: tokenize_re r s.
  Proof.
    intros Hx Hc. unfold tokenize_re. rewrite (split_cmds_nocmd x _ [] Hx).
    cbn [split_cmds]. rewrite Hc, app_nil_r, rev_involutive. cbn [flat_map].
    rewrite (piece_tokens_re_nocmd x Hx), (piece_tokens_re_cmd c Hc). reflexivity.
  Qed.
  Lemma tokenize_re_nocmd x : nocmd x = true -> tokenize_re r x = map LNum (findall_re r x).
  Proof.
    intros Hx. unfold tokenize_re. rewrite <- (app_nil_r x) at 1.
    rewrite (split_cmds_nocmd x [] [] Hx). cbn. rewrite !app_nil_r, rev_involutive.
    apply piece_tokens_re_nocmd, Hx.
  Qed.

  (* ---------------------------------------------------------------- *)
  (* rendering, for any syntactic class of numerals the pattern reads   *)
  (* ---------------------------------------------------------------- *)
  Variable Nm : Type.                              (* numerals *)
  Variable ntxt : Nm -> list ascii.                (* their text *)
  Variable nwf : Nm -> bool.
  Variable follow : Nm -> list ascii -> Prop.      (* what may follow without being absorbed *)
  Variable glue : Nm -> Nm -> bool.                (* may be written without separator *)
  Hypothesis ntxt_nonempty : forall n, nwf n = true -> ntxt n <> [].
  Hypothesis ntxt_nocmd : forall n, nwf n = true -> nocmd (ntxt n) = true.
  Hypothesis scan_ntxt : forall n rest, nwf n = true -> follow n rest -> scan (ntxt n ++ rest) = Some rest.
  Hypothesis follow_nil : forall n, follow n [].
  Hypothesis follow_sep : forall n c x, is_sepchar c = true -> follow n (c :: x).
  Hypothesis follow_glue : forall n1 n2 x, nwf n2 = true -> glue n1 n2 = true -> follow n1 (ntxt n2 ++ x).

  Inductive gtok := GCmd (c : cmdletter) (up : bool) | GNum (n : Nm).
  Definition gtext (t : gtok) : list ascii :=
    match t with GCmd c up => [cmd_char c up] | GNum n => ntxt n end.
  Definition gltok (t : gtok) : ltok :=
    match t with GCmd c up => LCmd (cmd_char c up) | GNum n => LNum (ntxt n) end.
  Definition gitem : Type := (list ascii * gtok)%type.
  Definition grender (items : list gitem) (trail : list ascii) : list ascii :=
    flat_map (fun it : gitem => fst it ++ gtext (snd it)) items ++ trail.

  Fixpoint gitems_ok (prev : option Nm) (items : list gitem) : bool :=
    match items with
    | [] => true
    | (s, t) :: more =>
        forallb is_sepchar s
        && match t with
           | GCmd _ _ => true
           | GNum n => nwf n
                       && match prev, s with
                          | Some n1, [] => glue n1 n
                          | _, _ => true
                          end
           end
        && gitems_ok (match t with GNum n => Some n | GCmd _ _ => None end) more
    end.

  Definition glast_prev (prev : option Nm) (items : list gitem) : option Nm :=
    match rev items with
    | [] => prev
    | (_, GNum n) :: _ => Some n
    | (_, GCmd _ _) :: _ => None
    end.
  Lemma gitems_ok_app prev l1 l2 :
    gitems_ok prev (l1 ++ l2) = gitems_ok prev l1 && gitems_ok (glast_prev prev l1) l2.
  Proof.
    revert prev. induction l1 as [|[s t] l1 IH]; intros prev.
    - reflexivity.
    - cbn [app gitems_ok]. rewrite IH, !andb_assoc. f_equal. f_equal.
      unfold glast_prev. cbn [rev]. destruct (rev l1) as [|[s' t'] r0] eqn:E; cbn; reflexivity.
  Qed.

  Definition gnitem : Type := (list ascii * Nm)%type.
  Definition gas_items (l : list gnitem) : list gitem :=
    map (fun sn : gnitem => (fst sn, GNum (snd sn))) l.
  Definition grender_nums (l : list gnitem) (trail : list ascii) : list ascii :=
    flat_map (fun sn : gnitem => fst sn ++ ntxt (snd sn)) l ++ trail.
  Lemma grender_as_items l trail : grender (gas_items l) trail = grender_nums l trail.
  Proof.
    unfold grender, grender_nums, gas_items. f_equal.
    induction l as [|[s n] l IH]; [reflexivity|]. cbn. rewrite IH. reflexivity.
  Qed.

  Theorem gfindall_run : forall l prev trail,
    gitems_ok prev (gas_items l) = true -> forallb is_sepchar trail = true ->
    findall_re r (grender_nums l trail) = map (fun sn : gnitem => ntxt (snd sn)) l.
  Proof.
    induction l as [|[s n] more IH]; intros prev trail Ok Tr.
    - unfold grender_nums. cbn [flat_map map app].
      pose proof (findall_re_seps trail [] Tr) as H. rewrite app_nil_r in H. exact H.
    - cbn [gas_items map fst snd gitems_ok] in Ok.
      apply andb_true_iff in Ok. destruct Ok as [Ok Okm]. apply andb_true_iff in Ok. destruct Ok as [Os On].
      apply andb_true_iff in On. destruct On as [Wn _].
      unfold grender_nums. cbn [flat_map fst snd map]. rewrite <- !app_assoc.
      rewrite (findall_re_seps s _ Os).
      fold (grender_nums more trail).
      rewrite findall_re_match.
      + f_equal. exact (IH (Some n) trail Okm Tr).
      + apply ntxt_nonempty, Wn.
      + apply scan_ntxt; [exact Wn|].
        destruct more as [|[s2 n2] more'].
        * unfold grender_nums. cbn. destruct trail as [|c t]; [apply follow_nil|].
          cbn in Tr. apply andb_true_iff in Tr. apply follow_sep, Tr.
        * cbn [gas_items map fst snd gitems_ok] in Okm.
          apply andb_true_iff in Okm. destruct Okm as [Ok2 _].
          apply andb_true_iff in Ok2. destruct Ok2 as [Os2 On2].
          apply andb_true_iff in On2. destruct On2 as [Wn2 G].
          unfold grender_nums. cbn [flat_map fst snd]. rewrite <- !app_assoc.
          destruct s2 as [|c s2'].
          -- cbn [app]. apply follow_glue; assumption.
          -- cbn in Os2. apply andb_true_iff in Os2. cbn [app]. apply follow_sep, Os2.
  Qed.

  Lemma gnocmd_render_nums l prev trail :
    gitems_ok prev (gas_items l) = true -> forallb is_sepchar trail = true ->
    nocmd (grender_nums l trail) = true.
  Proof.
    revert prev. induction l as [|[s n] more IH]; intros prev Ok Tr.
    - apply nocmd_seps, Tr.
    - cbn [gas_items map fst snd gitems_ok] in Ok.
      apply andb_true_iff in Ok. destruct Ok as [Ok Okm]. apply andb_true_iff in Ok. destruct Ok as [Os On].
      apply andb_true_iff in On. destruct On as [Wn _].
      unfold grender_nums. cbn [flat_map fst snd]. rewrite <- !app_assoc.
      fold (grender_nums more trail).
      rewrite nocmd_app, (nocmd_seps _ Os), nocmd_app, (ntxt_nocmd _ Wn). cbn [andb].
      exact (IH (Some n) Okm Tr).
  Qed.

  Lemma grender_app l1 l2 trail : grender (l1 ++ l2) trail = grender l1 [] ++ grender l2 trail.
  Proof. unfold grender. rewrite flat_map_app, app_nil_r, app_assoc. reflexivity. Qed.
  Lemma grender_cons s t more trail :
    grender ((s, t) :: more) trail = s ++ gtext t ++ grender more trail.
  Proof. unfold grender. cbn [flat_map fst snd]. rewrite <- !app_assoc. reflexivity. Qed.
  Lemma grender_nums_trail pre s x : grender_nums pre [] ++ s ++ x = grender_nums pre s ++ x.
  Proof. unfold grender_nums. rewrite app_nil_r, <- !app_assoc. reflexivity. Qed.

  Lemma gtokenize_render_gen : forall items pre trail,
    gitems_ok None (gas_items pre ++ items) = true -> forallb is_sepchar trail = true ->
    tokenize_re r (grender (gas_items pre ++ items) trail)
    = map gltok (map snd (gas_items pre ++ items)).
  Proof.
    induction items as [|[s t] more IH]; intros pre trail Ok Tr.
    - rewrite app_nil_r in *. rewrite grender_as_items.
      rewrite tokenize_re_nocmd by (eapply gnocmd_render_nums; eassumption).
      rewrite (gfindall_run pre None trail Ok Tr).
      unfold gas_items. rewrite !map_map. reflexivity.
    - destruct t as [c up|n].
      + rewrite gitems_ok_app in Ok. apply andb_true_iff in Ok. destruct Ok as [Okp Ok].
        cbn [gitems_ok] in Ok. apply andb_true_iff in Ok. destruct Ok as [Ok Okm].
        apply andb_true_iff in Ok. destruct Ok as [Os _].
        rewrite grender_app, grender_as_items, grender_cons, grender_nums_trail.
        cbn [gtext app].
        rewrite tokenize_re_cmd;
          [|eapply gnocmd_render_nums; eassumption|apply cmd_char_is_cmd].
        rewrite (gfindall_run pre None s Okp Os).
        specialize (IH [] trail). cbn [gas_items map app] in IH. rewrite (IH Okm Tr).
        rewrite !map_app. cbn [map snd gltok]. unfold gas_items. rewrite !map_map. reflexivity.
      + specialize (IH (pre ++ [(s, n)]) trail).
        assert (E : gas_items (pre ++ [(s, n)]) ++ more = gas_items pre ++ (s, GNum n) :: more).
        { unfold gas_items. rewrite map_app, <- app_assoc. reflexivity. }
        rewrite E in IH. apply IH; assumption.
  Qed.

  Theorem gtokenize_render items trail :
    gitems_ok None items = true -> forallb is_sepchar trail = true ->
    tokenize_re r (grender items trail) = map gltok (map snd items).
  Proof. intros Ok Tr. exact (gtokenize_render_gen items [] trail Ok Tr). Qed.

  Definition gtok_value (t : gtok) : tok Qc :=
    match t with GCmd c up => TCmd c up | GNum n => TNum (numval (ntxt n)) end.
  Theorem glex_render items trail :
    gitems_ok None items = true -> forallb is_sepchar trail = true ->
    lex_re r (grender items trail) = map gtok_value (map snd items).
  Proof.
    intros Ok Tr. unfold lex_re. rewrite (gtokenize_render items trail Ok Tr).
    induction (map snd items) as [|t l IH]; [reflexivity|].
    cbn [map flat_map]. rewrite IH. destruct t as [c up|n]; cbn [gltok tok_of_ltok gtok_value].
    - rewrite cmd_char_roundtrip. reflexivity.
    - reflexivity.
  Qed.
End AnyPattern.

(* ================================================================== *)
(* numerals of the SVG number grammar, with the optional trailing dot  *)
(* ================================================================== *)
Record numeral_d := mkNumeralD {
  nd_sign : option bool;
  nd_int : list ascii;
  nd_point : bool;                            (* a '.' is written *)
  nd_frac : list ascii;                       (* digits after it (may be empty: "1.") *)
  nd_exp : option (ascii * option bool * list ascii) }.

Definition point_text (pt : bool) (f : list ascii) : list ascii :=
  if pt then "." :: f else [].
Definition ntext_d (n : numeral_d) : list ascii :=
  sign_text (nd_sign n) ++ nd_int n ++ point_text (nd_point n) (nd_frac n) ++ exp_text (nd_exp n).

Definition numeral_d_wf (n : numeral_d) : bool :=
  forallb is_digit (nd_int n) && forallb is_digit (nd_frac n)
  && nonempty (nd_int n ++ nd_frac n)
  && (nd_point n || match nd_frac n with [] => true | _ :: _ => false end)
  && match nd_exp n with
     | None => true
     | Some (ch, _, ds) => is_e ch && forallb is_digit ds && nonempty ds
     end.

Definition has_point_or_exp_d (n : numeral_d) : bool :=
  nd_point n || match nd_exp n with Some _ => true | None => false end.
Definition follow_d (n : numeral_d) (rest : list ascii) : Prop :=
  match rest with
  | [] => True
  | c :: _ => is_digit c = false /\ is_e c = false
              /\ (is_dot c = true -> has_point_or_exp_d n = true)
  end.
Definition glue_d (n1 n2 : numeral_d) : bool :=
  match nd_sign n2 with
  | Some _ => true
  | None => match nd_int n2 with
            | [] => has_point_or_exp_d n1
            | _ :: _ => false
            end
  end.

(* every numeral of the old shape is one of the new shape *)
Definition numeral_d_of (n : numeral) : numeral_d :=
  mkNumeralD (n_sign n) (n_int n) (nonempty (n_frac n)) (n_frac n) (n_exp n).
Lemma ntext_d_of n : ntext_d (numeral_d_of n) = ntext n.
Proof. unfold ntext_d, ntext, numeral_d_of. cbn. destruct (n_frac n); reflexivity. Qed.
Lemma numeral_d_of_wf n : numeral_wf n = true -> numeral_d_wf (numeral_d_of n) = true.
Proof.
  unfold numeral_wf, numeral_d_wf, numeral_d_of. cbn. intros W.
  apply andb_true_iff in W. destruct W as [W We]. rewrite We, W.
  destruct (n_frac n); reflexivity.
Qed.

Theorem scan_numeral_d n rest :
  numeral_d_wf n = true -> follow_d n rest -> scan_float_dot (ntext_d n ++ rest) = Some rest.
Proof.
  intros W F. unfold numeral_d_wf in W.
  apply andb_true_iff in W. destruct W as [W We]. apply andb_true_iff in W. destruct W as [W Wp].
  apply andb_true_iff in W. destruct W as [W Wne]. apply andb_true_iff in W. destruct W as [Wi Wf].
  destruct n as [sg ip pt fp ex]. cbn [nd_sign nd_int nd_point nd_frac nd_exp] in *.
  unfold ntext_d. cbn [nd_sign nd_int nd_point nd_frac nd_exp]. rewrite <- !app_assoc.
  unfold scan_float_dot.
  assert (Hr : match rest with [] => True | c :: _ => is_digit c = false /\ is_e c = false end).
  { destruct rest; [exact I|]. destruct F as (A & B & _). split; assumption. }
  assert (Hy : match exp_text ex ++ rest with [] => True | c :: _ => is_digit c = false end).
  { destruct ex as [[[ch s'] ds]|]; cbn [exp_text app].
    - apply andb_true_iff in We. destruct We as [We _]. apply andb_true_iff in We.
      apply e_not_digit, We.
    - destruct rest; [exact I|apply Hr]. }
  rewrite skip_sign_text.
  2:{ destruct sg; [exact I|]. destruct ip as [|d ip'].
      - destruct pt; [reflexivity|]. cbn in Wp. destruct fp; discriminate.
      - cbn in Wi. apply andb_true_iff in Wi. cbn. apply digit_not_sign, Wi. }
  unfold scan_mant_dot.
  destruct pt.
  - (* a point is written *)
    cbn [point_text].
    assert (Hx : match ("." :: fp ++ exp_text ex ++ rest) with
                 | [] => True | c :: _ => is_digit c = false end) by reflexivity.
    change (ip ++ ("." :: fp) ++ exp_text ex ++ rest) with (ip ++ "." :: fp ++ exp_text ex ++ rest).
    rewrite (take_while_run is_digit ip ("." :: fp ++ exp_text ex ++ rest) Wi Hx). cbn [fst snd].
    destruct ip as [|d ip'].
    + (* ".digits" *)
      cbn [app]. change (is_dot ".") with true. cbv iota.
      rewrite (take_while_run is_digit fp _ Wf Hy). cbn [fst snd].
      destruct fp as [|f fp']; [discriminate|].
      rewrite (scan_exp_text ex rest We Hr). reflexivity.
    + change (is_dot ".") with true. cbv iota.
      rewrite (take_while_run is_digit fp _ Wf Hy). cbn [fst snd].
      rewrite (scan_exp_text ex rest We Hr). reflexivity.
  - (* no point: digits only *)
    cbn [point_text app]. cbn in Wp. destruct fp as [|f fp']; [|discriminate].
    rewrite app_nil_r in Wne.
    rewrite (take_while_run is_digit ip _ Wi Hy). cbn [fst snd].
    destruct ip as [|d ip']; [discriminate|].
    assert (Hnd : match exp_text ex ++ rest with
                  | [] => True | c :: _ => is_dot c = false end).
    { destruct ex as [[[ch s'] ds]|]; cbn [exp_text app].
      - apply andb_true_iff in We. destruct We as [We _]. apply andb_true_iff in We. destruct We as [We _].
        destruct (is_dot ch) eqn:D; [|reflexivity]. apply dot_not_e in D. congruence.
      - destruct rest as [|c r0]; [exact I|]. destruct F as (_ & _ & Fd).
        destruct (is_dot c); [|reflexivity]. specialize (Fd eq_refl). discriminate Fd. }
    destruct (exp_text ex ++ rest) as [|c r0] eqn:Ey.
    + rewrite <- Ey. rewrite (scan_exp_text ex rest We Hr). reflexivity.
    + rewrite Hnd. rewrite <- Ey. rewrite (scan_exp_text ex rest We Hr). reflexivity.
Qed.

Lemma ntext_d_head n : numeral_d_wf n = true ->
  exists c r, ntext_d n = c :: r /\
    match nd_sign n with
    | Some _ => is_sign c = true
    | None => match nd_int n with
              | [] => is_dot c = true
              | _ :: _ => is_digit c = true
              end
    end.
Proof.
  intros W. unfold numeral_d_wf in W.
  apply andb_true_iff in W. destruct W as [W _]. apply andb_true_iff in W. destruct W as [W Wp].
  apply andb_true_iff in W. destruct W as [W Wne]. apply andb_true_iff in W. destruct W as [Wi _].
  unfold ntext_d. destruct (nd_sign n) as [[|]|]; cbn [sign_text app].
  - eexists _, _. split; reflexivity.
  - eexists _, _. split; reflexivity.
  - destruct (nd_int n) as [|d ip].
    + destruct (nd_point n).
      * cbn. eexists _, _. split; reflexivity.
      * cbn in Wp, Wne. destruct (nd_frac n); discriminate.
    + cbn in Wi. apply andb_true_iff in Wi. cbn. eexists _, _. split; [reflexivity|apply Wi].
Qed.

Lemma ntext_d_nonempty n : numeral_d_wf n = true -> ntext_d n <> [].
Proof. intros W. destruct (ntext_d_head n W) as (c & r & E & _). rewrite E. discriminate. Qed.

Lemma ntext_d_nocmd n : numeral_d_wf n = true -> nocmd (ntext_d n) = true.
Proof.
  intros W. unfold numeral_d_wf in W.
  apply andb_true_iff in W. destruct W as [W We]. apply andb_true_iff in W. destruct W as [W _].
  apply andb_true_iff in W. destruct W as [W _]. apply andb_true_iff in W. destruct W as [Wi Wf].
  unfold ntext_d. rewrite !nocmd_app, nocmd_sign, (nocmd_digits _ Wi). cbn [andb].
  apply andb_true_iff. split.
  - destruct (nd_point n); [|reflexivity]. cbn [point_text].
    change (nocmd ("." :: nd_frac n)) with (nocmd (nd_frac n)). apply nocmd_digits, Wf.
  - destruct (nd_exp n) as [[[ch sg] ds]|]; [|reflexivity]. cbn [exp_text].
    apply andb_true_iff in We. destruct We as [We _]. apply andb_true_iff in We. destruct We as [Wc Wd].
    change (nocmd (ch :: sign_text sg ++ ds)) with (negb (is_cmd ch) && nocmd (sign_text sg ++ ds)).
    rewrite nocmd_app, nocmd_sign, (nocmd_digits _ Wd).
    destruct (is_cmd ch) eqn:E; [|reflexivity]. apply cmd_not_e in E. congruence.
Qed.

Lemma follow_d_nil n : follow_d n [].
Proof. exact I. Qed.
Lemma follow_d_sep n c x : is_sepchar c = true -> follow_d n (c :: x).
Proof.
  intros H. destruct (sepchar_props c H) as (A & _ & C & D & _). cbn. repeat split; try assumption.
  intros E. congruence.
Qed.
Lemma follow_d_glue n1 n2 x :
  numeral_d_wf n2 = true -> glue_d n1 n2 = true -> follow_d n1 (ntext_d n2 ++ x).
Proof.
  intros W G. destruct (ntext_d_head n2 W) as (c & r & E & H). rewrite E. cbn.
  unfold glue_d in G. destruct (nd_sign n2).
  - repeat split.
    + apply sign_not_digit, H.
    + destruct (is_e c) eqn:Ee; [|reflexivity]. all_ascii c.
    + intros D. apply sign_not_dot in H. congruence.
  - destruct (nd_int n2); [|discriminate]. repeat split.
    + apply dot_not_digit, H. + apply dot_not_e, H. + intros _. exact G.
Qed.

(* ---- the rendering theorem for the repaired tokenizer ---- *)
Notation dtok := (gtok numeral_d).
Notation DCmd := (GCmd numeral_d).
Notation DNum := (@GNum numeral_d).
Definition ditems_ok := gitems_ok numeral_d numeral_d_wf glue_d.
Definition drender := grender numeral_d ntext_d.
Definition dtok_value := gtok_value numeral_d ntext_d.

Theorem tokenize_render_dot items trail :
  ditems_ok None items = true -> forallb is_sepchar trail = true ->
  tokenize_re FLOAT_RE_DOT (drender items trail)
  = map (gltok numeral_d ntext_d) (map snd items).
Proof.
  apply (gtokenize_render FLOAT_RE_DOT scan_float_dot match_re_dot_scan scan_float_dot_suffix
           scan_float_dot_nonstart numeral_d ntext_d numeral_d_wf follow_d glue_d
           ntext_d_nonempty ntext_d_nocmd scan_numeral_d follow_d_nil follow_d_sep follow_d_glue).
Qed.

Theorem lex_render_dot items trail :
  ditems_ok None items = true -> forallb is_sepchar trail = true ->
  lex_re FLOAT_RE_DOT (drender items trail) = map dtok_value (map snd items).
Proof.
  apply (glex_render FLOAT_RE_DOT scan_float_dot match_re_dot_scan scan_float_dot_suffix
           scan_float_dot_nonstart numeral_d ntext_d numeral_d_wf follow_d glue_d
           ntext_d_nonempty ntext_d_nocmd scan_numeral_d follow_d_nil follow_d_sep follow_d_glue).
Qed.

Theorem spellings_same_tokens_dot items1 trail1 items2 trail2 :
  ditems_ok None items1 = true -> forallb is_sepchar trail1 = true ->
  ditems_ok None items2 = true -> forallb is_sepchar trail2 = true ->
  map dtok_value (map snd items1) = map dtok_value (map snd items2) ->
  lex_re FLOAT_RE_DOT (drender items1 trail1) = lex_re FLOAT_RE_DOT (drender items2 trail2).
Proof. intros O1 T1 O2 T2 E. rewrite !lex_render_dot by assumption. exact E. Qed.

(* nothing is lost: every rendering covered by the theorem for the pinned
   pattern (Proofs/LexerRender.v) is read the same way by the repaired one *)
Definition item_d_of (it : item) : gitem numeral_d :=
  (fst it, match snd it with SCmd c up => DCmd c up | SNum n => DNum (numeral_d_of n) end).

Lemma glue_d_of n1 n2 : glue_ok n1 n2 = true -> glue_d (numeral_d_of n1) (numeral_d_of n2) = true.
Proof.
  unfold glue_ok, glue_d, numeral_d_of. cbn. destruct (n_sign n2); [auto|].
  destruct (n_int n2); [|discriminate]. unfold has_point_or_exp, has_point_or_exp_d. cbn. auto.
Qed.
Lemma ditems_ok_of prev items :
  items_ok prev items = true ->
  ditems_ok (option_map numeral_d_of prev) (map item_d_of items) = true.
Proof.
  revert prev. induction items as [|[s t] more IH]; intros prev Ok; [reflexivity|].
  cbn [items_ok] in Ok. apply andb_true_iff in Ok. destruct Ok as [Ok Okm].
  apply andb_true_iff in Ok. destruct Ok as [Os Ot].
  unfold ditems_ok. cbn [map item_d_of fst snd gitems_ok]. rewrite Os. cbn [andb].
  destruct t as [c up|n].
  - cbn [andb]. exact (IH None Okm).
  - apply andb_true_iff in Ot. destruct Ot as [Wn G].
    rewrite (numeral_d_of_wf n Wn). cbn [andb].
    apply andb_true_iff. split.
    + destruct prev as [n1|]; cbn [option_map]; [|reflexivity].
      destruct s; [|reflexivity]. apply glue_d_of, G.
    + exact (IH (Some n) Okm).
Qed.
Lemma drender_of items trail : drender (map item_d_of items) trail = render items trail.
Proof.
  unfold drender, grender, render. f_equal.
  induction items as [|[s t] more IH]; [reflexivity|].
  cbn [map flat_map item_d_of fst snd]. rewrite IH. f_equal. f_equal.
  destruct t as [c up|n]; cbn [gtext stext]; [reflexivity|apply ntext_d_of].
Qed.

Theorem tokenize_re_dot_old_renderings items trail :
  items_ok None items = true -> forallb is_sepchar trail = true ->
  tokenize_re FLOAT_RE_DOT (render items trail) = tokenize (render items trail).
Proof.
  intros Ok Tr. rewrite (tokenize_render items trail Ok Tr).
  rewrite <- drender_of.
  rewrite (tokenize_render_dot (map item_d_of items) trail (ditems_ok_of None items Ok) Tr).
  rewrite !map_map. apply map_ext. intros [s t]. cbn [snd item_d_of].
  destruct t as [c up|n]; cbn [gltok ltok_of]; [reflexivity|rewrite ntext_d_of; reflexivity].
Qed.

Theorem lex_render_dot_old items trail :
  items_ok None items = true -> forallb is_sepchar trail = true ->
  lex_re FLOAT_RE_DOT (render items trail) = map tok_of_stok (map snd items).
Proof.
  intros Ok Tr. unfold lex_re. rewrite (tokenize_re_dot_old_renderings items trail Ok Tr).
  exact (lex_render items trail Ok Tr).
Qed.

(* the generic tokenizer at the pinned pattern is the tokenizer of Model/Lexer.v *)
Lemma findall_re_fuel_old fuel s : findall_re_fuel FLOAT_RE fuel s = findall_fuel fuel s.
Proof.
  revert s. induction fuel as [|f IH]; intros s; [reflexivity|].
  cbn [findall_re_fuel findall_fuel]. destruct s as [|c s']; [reflexivity|].
  rewrite match_re_old. destruct (match_float (c :: s')); rewrite IH; reflexivity.
Qed.
Theorem tokenize_re_old s : tokenize_re FLOAT_RE s = tokenize s.
Proof.
  unfold tokenize_re, tokenize. induction (split_cmds s []) as [|x l IH]; [reflexivity|].
  cbn [flat_map]. rewrite IH. f_equal.
  unfold piece_tokens_re, piece_tokens, findall_re, findall. rewrite findall_re_fuel_old. reflexivity.
Qed.

(* ================================================================== *)
(* the arc-flag pass of the repaired tokenizer                         *)
(* ================================================================== *)

(* a token the while-loop would split at argument index k *)
Definition splittable (k : nat) (t : list ascii) : bool :=
  is_flag_index k && match t with c :: _ :: _ => is_flagchar c | _ => false end.

(* no token at a flag position is splittable: flags written as "0"/"1" followed
   by a separator (or by a sign / a '.' of the next number, which FLOAT_RE
   already separates) *)
Fixpoint arc_idle (st : option nat) (l : list ltok) : bool :=
  match l with
  | [] => true
  | LCmd c :: r => arc_idle (if is_arc_letter c then Some O else None) r
  | LNum t :: r =>
      match st with
      | None => arc_idle None r
      | Some k => negb (splittable k t) && arc_idle (Some (Nat.modulo (S k) 7)) r
      end
  end.

Lemma split_flags_idle fuel k t : splittable k t = false -> split_flags fuel k t = ([t], k).
Proof.
  unfold splittable. intros H. destruct fuel as [|f]; [reflexivity|]. cbn [split_flags].
  destruct t as [|c [|d r0]]; try reflexivity. rewrite H. reflexivity.
Qed.

Theorem arc_fix_idle : forall l st, arc_idle st l = true -> arc_fix st l = l.
Proof.
  induction l as [|t l IH]; intros st H; [reflexivity|].
  destruct t as [c|t]; cbn [arc_fix arc_idle] in *.
  - f_equal. apply IH, H.
  - destruct st as [k|].
    + apply andb_true_iff in H. destruct H as [Hs Hl]. apply negb_true_iff in Hs.
      rewrite (split_flags_idle _ _ _ Hs). cbn [map app]. f_equal. apply IH, Hl.
    + f_equal. apply IH, H.
Qed.

(* the arc pass splits a leading flag character off and goes on with the rest *)
Lemma split_flags_step f k c d r0 :
  is_flag_index k = true -> is_flagchar c = true ->
  split_flags (S f) k (c :: d :: r0)
  = ([c] :: fst (split_flags f (S k) (d :: r0)), snd (split_flags f (S k) (d :: r0))).
Proof.
  intros Hk Hc. cbn [split_flags]. rewrite Hk, Hc. cbn [andb].
  destruct (split_flags f (S k) (d :: r0)); reflexivity.
Qed.

(* renderings whose flags are written properly are read alike by all four
   variants of the tokenizer *)
Theorem tokenize_v_render_old dot_ok arc_ok items trail :
  items_ok None items = true -> forallb is_sepchar trail = true ->
  arc_idle None (map ltok_of (map snd items)) = true ->
  tokenize_v dot_ok arc_ok (render items trail) = map ltok_of (map snd items).
Proof.
  intros Ok Tr Idle. unfold tokenize_v, float_re.
  assert (E : tokenize_re (if dot_ok then FLOAT_RE_DOT else FLOAT_RE) (render items trail)
              = map ltok_of (map snd items)).
  { destruct dot_ok.
    - rewrite (tokenize_re_dot_old_renderings items trail Ok Tr). exact (tokenize_render items trail Ok Tr).
    - rewrite tokenize_re_old. exact (tokenize_render items trail Ok Tr). }
  rewrite E. destruct arc_ok; [apply arc_fix_idle, Idle|reflexivity].
Qed.

Theorem tokenize_v_render_dot arc_ok items trail :
  ditems_ok None items = true -> forallb is_sepchar trail = true ->
  arc_idle None (map (gltok numeral_d ntext_d) (map snd items)) = true ->
  tokenize_v true arc_ok (drender items trail) = map (gltok numeral_d ntext_d) (map snd items).
Proof.
  intros Ok Tr Idle. unfold tokenize_v, float_re.
  rewrite (tokenize_render_dot items trail Ok Tr).
  destruct arc_ok; [apply arc_fix_idle, Idle|reflexivity].
Qed.

(* a token list without arc commands is never touched *)
Lemma arc_idle_no_arc : forall l,
  forallb (fun t => match t with LCmd c => negb (is_arc_letter c) | LNum _ => true end) l = true ->
  arc_idle None l = true.
Proof.
  induction l as [|t l IH]; intros H; [reflexivity|].
  cbn [forallb] in H. apply andb_true_iff in H. destruct H as [Ht Hl].
  destruct t as [c|t]; cbn [arc_idle].
  - apply negb_true_iff in Ht. rewrite Ht. apply IH, Hl.
  - apply IH, Hl.
Qed.
