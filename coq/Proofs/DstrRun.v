(* Proofs/DstrRun.v — a law-free fact about the model of _parse_path
   (Model/Parse.v): on the tokens of a command list in which every command has
   exactly one argument group (what Path.d writes), the while-loop is the fold
   of the loop body over the commands.  No property of the carrier is used. *)
From Coq Require Import List Bool Arith Lia.
From SVP Require Import Base.Num Base.Cplx Model.Parse Proofs.ParseRefine.
Import ListNotations.

Section Run.
  Context {K : Type} (N : Num K).
  Variables none_ok coinc_ok : bool.
  Notation pt := (Cplx K).
  Notation pstate := (@pstate K).
  Notation exec := (exec N none_ok coinc_ok).
  Notation step := (step N none_ok coinc_ok).
  Notation reaches := (reaches N none_ok coinc_ok).

  Definition single (c : command K) : bool :=
    match c with
    | MoveTo _ [_] | LineTo _ [_] | HTo _ [_] | VTo _ [_] | CurveTo _ [_]
    | SmoothTo _ [_] | QuadTo _ [_] | TTo _ [_] | ArcTo _ [_] | Close _ => true
    | _ => false
    end.

  (* the loop body for the command c: letter popped, then its arguments *)
  Definition exec_cmd (c : command K) (st : pstate) : result pstate :=
    match flatten_cmd N c with
    | TCmd l ab :: args =>
        match exec l (p_cmd st) ab args st with
        | Ok (_, st') => Ok st'
        | Err e => Err e
        end
    | _ => Err ValueError
    end.

  Fixpoint run_cmds (prog : list (command K)) (st : pstate) : result pstate :=
    match prog with
    | [] => Ok st
    | c :: r => match exec_cmd c st with Ok st' => run_cmds r st' | Err e => Err e end
    end.

  Lemma run_cmds_app p q st :
    run_cmds (p ++ q) st = match run_cmds p st with Ok st' => run_cmds q st' | Err e => Err e end.
  Proof.
    revert st. induction p as [|c r IH]; intros st; cbn; [reflexivity|].
    destruct (exec_cmd c st); [apply IH|reflexivity].
  Qed.

  Lemma step_single c st st' rest :
    single c = true -> exec_cmd c st = Ok st' ->
    step (flatten_cmd N c ++ rest) st = Ok (rest, st').
  Proof.
    intros S E. unfold exec_cmd in E.
    destruct c as [ab [|p [|]]|ab [|p [|]]|ab [|x [|]]|ab [|y [|]]|ab [|[[c1 c2] e] [|]]
                  |ab [|[c2 e] [|]]|ab [|[c e] [|]]|ab [|e [|]]|ab [|[r rot la sw e] [|]]|up];
      try discriminate S; clear S;
      cbn [flatten_cmd flat_map fpt fnum fcurve fpair farc app fst snd
           aa_r aa_rot aa_large aa_sweep aa_end] in *;
      unfold Parse.step; unfold Parse.exec, fflag in *;
      repeat match goal with p : Cplx K |- _ => destruct p end;
      cbn [pop2 popc popf pop tofloat bind fst snd re im mkc app] in *.
    - inversion E; reflexivity.
    - inversion E; reflexivity.
    - inversion E; reflexivity.
    - inversion E; reflexivity.
    - inversion E; reflexivity.
    - destruct (last_in none_ok cC cS (p_cmd st)) as [b|]; cbn [bind] in *; [|discriminate].
      destruct b; cbn [bind] in *.
      + destruct (last_control2 (p_segs st)); cbn [bind] in *; [|discriminate].
        inversion E; reflexivity.
      + inversion E; reflexivity.
    - inversion E; reflexivity.
    - destruct (last_in none_ok cQ cT (p_cmd st)) as [b|]; cbn [bind] in *; [|discriminate].
      destruct b; cbn [bind] in *.
      + destruct (last_control (p_segs st)); cbn [bind] in *; [|discriminate].
        inversion E; reflexivity.
      + inversion E; reflexivity.
    - match type of E with context [arc_or_line ?a ?b ?c ?d ?e ?f ?g ?h] =>
        destruct (arc_or_line a b c d e f g h) end; cbn [bind] in *; [|discriminate].
      inversion E; reflexivity.
    - destruct (p_start st); [|discriminate]. inversion E; reflexivity.
  Qed.


  (* ---------------------------------------------------------------- *)
  (* the loop body on each of the commands Path.d writes               *)

  Definition raise (ab : bool) (cur z : pt) : pt := if ab then z else cadd N z cur.   (* z += current_pos *)

  (* the first control point S computes, the control point T computes *)
  Definition smooth_c1 (st : pstate) : result pt :=
    bind (last_in none_ok cC cS (p_cmd st)) (fun isin =>
      if isin then bind (last_control2 (p_segs st))
                        (fun pc2 => Ok (csub N (cadd N (p_cur st) (p_cur st)) pc2))
      else Ok (p_cur st)).
  Definition t_ctrl (st : pstate) : result pt :=
    bind (last_in none_ok cQ cT (p_cmd st)) (fun isin =>
      if isin then bind (last_control (p_segs st))
                        (fun pc => Ok (csub N (cadd N (p_cur st) (p_cur st)) pc))
      else Ok (p_cur st)).

  Lemma exec_move ab p st :
    exec_cmd (MoveTo ab [p]) st
    = let cur' := if ab then p else cadd N (p_cur st) p in
      Ok (mkP (Some cL) ab cur' (Some cur') (p_segs st)).
  Proof. destruct p; reflexivity. Qed.
  Lemma exec_line ab p st :
    exec_cmd (LineTo ab [p]) st
    = let e := raise ab (p_cur st) p in
      Ok (mkP (Some cL) ab e (p_start st) (Line (p_cur st) e :: p_segs st)).
  Proof. destruct p; reflexivity. Qed.
  Lemma exec_curve ab c1 c2 e st :
    exec_cmd (CurveTo ab [(c1, c2, e)]) st
    = let cur := p_cur st in
      Ok (mkP (Some cC) ab (raise ab cur e) (p_start st)
              (Cubic cur (raise ab cur c1) (raise ab cur c2) (raise ab cur e) :: p_segs st)).
  Proof. destruct c1, c2, e; reflexivity. Qed.
  Lemma exec_smooth ab c2 e st :
    exec_cmd (SmoothTo ab [(c2, e)]) st
    = match smooth_c1 st with
      | Ok c1 => let cur := p_cur st in
                 Ok (mkP (Some cS) ab (raise ab cur e) (p_start st)
                         (Cubic cur c1 (raise ab cur c2) (raise ab cur e) :: p_segs st))
      | Err err => Err err
      end.
  Proof.
    destruct c2, e. unfold exec_cmd, smooth_c1. cbn [flatten_cmd flat_map fpair fpt app fst snd].
    unfold Parse.exec.
    destruct (last_in none_ok cC cS (p_cmd st)) as [b|]; cbn [bind]; [|reflexivity].
    destruct b; cbn [bind]; [|reflexivity].
    destruct (last_control2 (p_segs st)); reflexivity.
  Qed.
  Lemma exec_quad ab c e st :
    exec_cmd (QuadTo ab [(c, e)]) st
    = let cur := p_cur st in
      Ok (mkP (Some cQ) ab (raise ab cur e) (p_start st)
              (Quad cur (raise ab cur c) (raise ab cur e) :: p_segs st)).
  Proof. destruct c, e; reflexivity. Qed.
  Lemma exec_t ab e st :
    exec_cmd (TTo ab [e]) st
    = match t_ctrl st with
      | Ok c => let cur := p_cur st in
                Ok (mkP (Some cT) ab (raise ab cur e) (p_start st)
                        (Quad cur c (raise ab cur e) :: p_segs st))
      | Err err => Err err
      end.
  Proof.
    destruct e. unfold exec_cmd, t_ctrl. cbn [flatten_cmd flat_map fpt app fst snd].
    unfold Parse.exec.
    destruct (last_in none_ok cQ cT (p_cmd st)) as [b|]; cbn [bind]; [|reflexivity].
    destruct b; cbn [bind]; [|reflexivity].
    destruct (last_control (p_segs st)); reflexivity.
  Qed.
  Lemma exec_arc ab r rot la sw e st :
    exec_cmd (ArcTo ab [mkArcArgs r rot la sw e]) st
    = let cur := p_cur st in
      match arc_or_line N coinc_ok cur r rot (if la then one N else zero N)
                        (if sw then one N else zero N) (raise ab cur e) with
      | Ok new => Ok (mkP (Some cA) ab (raise ab cur e) (p_start st) (new ++ p_segs st))
      | Err err => Err err
      end.
  Proof.
    destruct r, e. unfold exec_cmd.
    cbn [flatten_cmd flat_map farc fpt app fst snd aa_r aa_rot aa_large aa_sweep aa_end].
    unfold Parse.exec, fflag, raise. cbn [popc popf pop tofloat bind fst snd re im]. unfold mkc.
    cbn [fst snd].
    match goal with |- context [arc_or_line ?a ?b ?c ?d ?e ?f ?g ?h] =>
      destruct (arc_or_line a b c d e f g h) end; reflexivity.
  Qed.
  Lemma exec_close up st :
    exec_cmd (Close up) st
    = match p_start st with
      | None => Err StartNone
      | Some sp => Ok (mkP None up sp (Some sp)
                           (if ceqb N (p_cur st) sp then p_segs st
                            else Line (p_cur st) sp :: p_segs st))
      end.
  Proof. unfold exec_cmd. cbn. destruct (p_start st); reflexivity. Qed.

  Lemma flatten_cmd_shape c : exists l ab args, flatten_cmd N c = TCmd l ab :: args.
  Proof. destruct c; cbn; eauto. Qed.

  Lemma run_cmds_reaches : forall prog st st' rest,
    forallb single prog = true -> run_cmds prog st = Ok st' ->
    reaches (flatten N prog ++ rest) st rest st'.
  Proof.
    induction prog as [|c r IH]; intros st st' rest S E.
    - cbn in E. inversion E. apply reaches_refl.
    - cbn [forallb] in S. apply andb_true_iff in S. destruct S as [Sc Sr].
      cbn [run_cmds] in E. destruct (exec_cmd c st) as [st1|] eqn:E1; [|discriminate].
      eapply reaches_trans; [|exact (IH st1 st' rest Sr E)].
      cbn [flatten flat_map]. rewrite <- app_assoc.
      destruct (flatten_cmd_shape c) as (l & ab & args & F).
      apply reaches_step.
      + rewrite F. discriminate.
      + apply step_single; assumption.
      + rewrite F. rewrite <- app_comm_cons. cbn [length]. rewrite (app_length args). unfold flatten. lia.
  Qed.

  Theorem impl_parse_run_cmds prog pos0 st' :
    forallb single prog = true -> run_cmds prog (init_state pos0) = Ok st' ->
    impl_parse N none_ok coinc_ok (flatten N prog) pos0 = Ok (rev (p_segs st')).
  Proof.
    intros S E. unfold impl_parse.
    apply reaches_done. rewrite <- (app_nil_r (flatten N prog)).
    apply run_cmds_reaches; assumption.
  Qed.
End Run.
