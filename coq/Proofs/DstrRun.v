(* Proofs/DstrRun.v — a law-free fact about the model of _parse_path
   (Model/Parse.v): on the tokens of a command list in which every command has
   exactly one argument group (what Path.d writes), the while-loop is the fold
   of the loop body over the commands.  No property of the carrier is used. *)
From Coq Require Import List Bool Arith Lia.
From SVP Require Import Base.Num Base.Cplx Model.Parse Proofs.ParseRefine.
Import ListNotations.

Section Run.
  Context {K : Type} (N : Num K).
  Variables none_ok coinc_ok : bool.
  Notation pt := (Cplx K).
  Notation pstate := (@pstate K).
  Notation exec := (exec N none_ok coinc_ok).
  Notation step := (step N none_ok coinc_ok).
  Notation reaches := (reaches N none_ok coinc_ok).

  Definition single (c : command K) : bool :=
    match c with
    | MoveTo _ [_] | LineTo _ [_] | HTo _ [_] | VTo _ [_] | CurveTo _ [_]
    | SmoothTo _ [_] | QuadTo _ [_] | TTo _ [_] | ArcTo _ [_] | Close _ => true
    | _ => false
    end.

  (* the loop body for the command c: letter popped, then its arguments *)
  Definition exec_cmd (c : command K) (st : pstate) : result pstate :=
    match flatten_cmd N c with
    | TCmd l ab :: args =>
        match exec l (p_cmd st) ab args st with
        | Ok (_, st') => Ok st'
        | Err e => Err e
        end
    | _ => Err ValueError
    end.

  Fixpoint run_cmds (prog : list (command K)) (st : pstate) : result pstate :=
    match prog with
    | [] => Ok st
    | c :: r => match exec_cmd c st with Ok st' => run_cmds r st' | Err e => Err e end
    end.

  Lemma run_cmds_app p q st :
    run_cmds (p ++ q) st = match run_cmds p st with Ok st' => run_cmds q st' | Err e => Err e end.
  Proof.
    revert st. induction p as [|c r IH]; intros st; cbn; [reflexivity|].
    destruct (exec_cmd c st); [apply IH|reflexivity].
  Qed.

  Lemma step_single c st st' rest :
    single c = true -> exec_cmd c st = Ok st' ->
    step (flatten_cmd N c ++ rest) st = Ok (rest, st').
  Proof.
    intros S E. unfold exec_cmd in E.
    destruct c as [ab [|p [|]]|ab [|p [|]]|ab [|x [|]]|ab [|y [|]]|ab [|[[c1 c2] e] [|]]
                  |ab [|[c2 e] [|]]|ab [|[c e] [|]]|ab [|e [|]]|ab [|[r rot la sw e] [|]]|up];
      try discriminate S; clear S;
      cbn [flatten_cmd flat_map fpt fnum fcurve fpair farc app fst snd
           aa_r aa_rot aa_large aa_sweep aa_end] in *;
      unfold Parse.step; unfold Parse.exec, fflag in *;
      repeat match goal with p : Cplx K |- _ => destruct p end;
      cbn [pop2 popc popf pop tofloat bind fst snd re im mkc app] in *.
    - inversion E; reflexivity.
    - inversion E; reflexivity.
    - inversion E; reflexivity.
    - inversion E; reflexivity.
    - inversion E; reflexivity.
    - destruct (last_in none_ok cC cS (p_cmd st)) as [b|]; cbn [bind] in *; [|discriminate].
      destruct b; cbn [bind] in *.
      + destruct (last_control2 (p_segs st)); cbn [bind] in *; [|discriminate].
        inversion E; reflexivity.
      + inversion E; reflexivity.
    - inversion E; reflexivity.
    - destruct (last_in none_ok cQ cT (p_cmd st)) as [b|]; cbn [bind] in *; [|discriminate].
      destruct b; cbn [bind] in *.
      + destruct (last_control (p_segs st)); cbn [bind] in *; [|discriminate].
        inversion E; reflexivity.
      + inversion E; reflexivity.
    - match type of E with context [arc_or_line ?a ?b ?c ?d ?e ?f ?g ?h] =>
        destruct (arc_or_line a b c d e f g h) end; cbn [bind] in *; [|discriminate].
      inversion E; reflexivity.
    - destruct (p_start st); [|discriminate]. inversion E; reflexivity.
  Qed.

  Lemma flatten_cmd_shape c : exists l ab args, flatten_cmd N c = TCmd l ab :: args.
  Proof. destruct c; cbn; eauto. Qed.

  Lemma run_cmds_reaches : forall prog st st' rest,
    forallb single prog = true -> run_cmds prog st = Ok st' ->
    reaches (flatten N prog ++ rest) st rest st'.
  Proof.
    induction prog as [|c r IH]; intros st st' rest S E.
    - cbn in E. inversion E. apply reaches_refl.
    - cbn [forallb] in S. apply andb_true_iff in S. destruct S as [Sc Sr].
      cbn [run_cmds] in E. destruct (exec_cmd c st) as [st1|] eqn:E1; [|discriminate].
      eapply reaches_trans; [|exact (IH st1 st' rest Sr E)].
      cbn [flatten flat_map]. rewrite <- app_assoc.
      destruct (flatten_cmd_shape c) as (l & ab & args & F).
      apply reaches_step.
      + rewrite F. discriminate.
      + apply step_single; assumption.
      + rewrite F. rewrite <- app_comm_cons. cbn [length]. rewrite (app_length args). lia.
  Qed.

  Theorem impl_parse_run_cmds prog pos0 st' :
    forallb single prog = true -> run_cmds prog (init_state pos0) = Ok st' ->
    impl_parse N none_ok coinc_ok (flatten N prog) pos0 = Ok (rev (p_segs st')).
  Proof.
    intros S E. unfold impl_parse.
    apply reaches_done. rewrite <- (app_nil_r (flatten N prog)).
    apply run_cmds_reaches; assumption.
  Qed.
End Run.
