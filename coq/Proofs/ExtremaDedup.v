(* Proofs/ExtremaDedup.v — the de-duplication loop of polytools.polyroots, AS
   CODED, uses the index of a PAIR of roots as the index of a ROOT.  Executed
   in exact rationals (vm_compute) on concrete oracle outputs: a simple root
   that is the global minimiser is dropped while both copies of the double
   root are kept, and bezier_radialrange returns a non-global minimum.

   Witness: the parabola  P(t) = (u, u^2), u = t - 1/2  (QuadraticBezier
   (-1/2+1/4i, -1/4i, 1/2+1/4i)) and z = (-4/125, 31/50), a point of its
   evolute: d/dt |P - z|^2 = 4 (t - 7/10)^2 (t - 1/10).  An exact oracle
   lists the double root twice; in the order [7/10; 1/10; 7/10] the close pair
   is pair number 1, so ROOT number 1 (the simple root 1/10, the global
   minimiser) is removed.  Distances are compared through their squares
   (hypot_ := x^2 + y^2), which orders candidates exactly as the distance. *)
From Coq Require Import ZArith QArith Qcanon List Bool.
From SVP Require Import Base.Num Base.Cplx Base.Poly Model.Bezier Model.Extrema.
Import ListNotations.

Definition atolQ : Qc := qc 1 100000000.    (* 1e-8 *)
Definition rtolQ : Qc := qc 1 100000.       (* 1e-5 *)
Definition Q0 : Qc := Q2Qc 0.

(* squared distance as the key (monotone in the distance) *)
Definition NumTQ_sq : NumT Qc :=
  mkNumT (fun x => x) (fun x => x) (fun x => x) (fun x => x) (fun x => x) (fun x => x) (fun x => x)
         (fun x => x) Q0 (fun x y => (x * x + y * y)%Qc) (fun x => x) (fun x => x).

Fixpoint qlist_eqb (a b : list Qc) : bool :=
  match a, b with
  | [], [] => true
  | x :: r, y :: s => Qc_eq_bool x y && qlist_eqb r s
  | _, _ => false
  end.

(* ---- the pure list phenomenon ---- *)
Definition w_roots : list (Cplx Qc) := [(qc 7 10, Q0); (qc 1 10, Q0); (qc 7 10, Q0)].
Definition w_out : list Qc := polyroots01 NumQ atolQ rtolQ false w_roots.
(* every listed root passes the filters, yet the simple one is not returned *)
Definition dedup_drops_simple_root : bool :=
  qlist_eqb (filter (le01 NumQ) (real_roots NumQ atolQ rtolQ w_roots)) [qc 7 10; qc 1 10; qc 7 10]
  && qlist_eqb w_out [qc 7 10; qc 7 10]
  && negb (existsb (Qc_eq_bool (qc 1 10)) w_out).
(* the same with 4 and 5 sorted roots (the order LAPACK returns in practice):
   a close pair at positions (1,2) is pair number 3 resp. 4 and removes the
   LAST root *)
Definition w_roots4 : list (Cplx Qc) := [(qc 9 10, Q0); (qc 6 10, Q0); (qc 6 10, Q0); (qc 2 10, Q0)].
Definition w_roots5 : list (Cplx Qc) :=
  [(qc 9 10, Q0); (qc 6 10, Q0); (qc 6 10, Q0); (qc 4 10, Q0); (qc 2 10, Q0)].
Definition dedup_drops_last_root : bool :=
  qlist_eqb (polyroots01 NumQ atolQ rtolQ false w_roots4) [qc 9 10; qc 6 10; qc 6 10]
  && qlist_eqb (polyroots01 NumQ atolQ rtolQ false w_roots5) [qc 9 10; qc 6 10; qc 6 10; qc 4 10].
(* ... while the intended behaviour (two roots, or the close pair first) is harmless *)
Definition dedup_ok_cases : bool :=
  qlist_eqb (polyroots01 NumQ atolQ rtolQ false [(qc 7 10, Q0); (qc 7 10, Q0)]) [qc 7 10]
  && qlist_eqb (polyroots01 NumQ atolQ rtolQ false [(qc 7 10, Q0); (qc 7 10, Q0); (qc 1 10, Q0)]) [qc 7 10; qc 1 10].

(* ---- consequence for bezier_radialrange ---- *)
Definition w_s : Cplx Qc := (qc (-1) 2, qc 1 4).
Definition w_c : Cplx Qc := (Q0, qc (-1) 4).
Definition w_e : Cplx Qc := (qc 1 2, qc 1 4).
Definition w_z : Cplx Qc := (qc (-4) 125, qc 31 50).
Definition w_poly : list (Cplx Qc) := quad_poly NumQ w_s w_c w_e.
Definition w_point (t : Qc) : Cplx Qc := quad_point NumQ w_s w_c w_e t.
Definition w_dr2 : list Qc := r_squared_deriv NumQ w_poly w_z.
Definition w_sqd (t : Qc) : Qc := cabs NumTQ_sq (csub NumQ (w_point t) w_z).

(* the polynomial handed to np.roots is exactly 4 (t - 7/10)^2 (t - 1/10), so
   w_roots is what an exact oracle returns (each root with its multiplicity) *)
Definition w_oracle_exact : bool :=
  qlist_eqb w_dr2
    (pscale NumQ (qc 4 1) (pmul NumQ [qc 1 1; qc (-7) 10] (pmul NumQ [qc 1 1; qc (-7) 10] [qc 1 1; qc (-1) 10])))
  && forallb (fun r => Qc_eq_bool (peval NumQ w_dr2 (fst r)) Q0 && Qc_eq_bool (snd r) Q0) w_roots.

Definition w_result := bezier_radialrange NumQ NumTQ_sq false atolQ rtolQ w_point w_z w_roots.
(* returned: (d^2, t)_min = (88981/250000, 0); but t = 1/10 is strictly closer *)
Definition w_nonglobal : bool :=
  Qc_eq_bool (snd (fst w_result)) Q0
  && Qc_eq_bool (fst (fst w_result)) (w_sqd Q0)
  && Qc_ltb (w_sqd (qc 1 10)) (fst (fst w_result))
  && le01 NumQ (qc 1 10).

(* ---- the repaired variant (fixed = true: drop the LATER root of a close pair)
   on the same oracle outputs: every distinct root survives once, and
   bezier_radialrange returns the global minimiser t = 1/10 ---- *)
Definition dedup_fixed_keeps_roots : bool :=
  qlist_eqb (polyroots01 NumQ atolQ rtolQ true w_roots) [qc 7 10; qc 1 10]
  && qlist_eqb (polyroots01 NumQ atolQ rtolQ true w_roots4) [qc 9 10; qc 6 10; qc 2 10]
  && qlist_eqb (polyroots01 NumQ atolQ rtolQ true w_roots5) [qc 9 10; qc 6 10; qc 4 10; qc 2 10].
Definition w_result_fixed := bezier_radialrange NumQ NumTQ_sq true atolQ rtolQ w_point w_z w_roots.
Definition w_fixed_global : bool :=
  Qc_eq_bool (snd (fst w_result_fixed)) (qc 1 10)
  && Qc_eq_bool (fst (fst w_result_fixed)) (w_sqd (qc 1 10))
  && forallb (fun t => Qc_leb (fst (fst w_result_fixed)) (w_sqd t)) [Q0; qc 1 1; qc 7 10; qc 1 10].

Lemma dedup_fixed_keeps_roots_true : dedup_fixed_keeps_roots = true.
Proof. vm_compute. reflexivity. Qed.
Lemma w_fixed_global_true : w_fixed_global = true.
Proof. vm_compute. reflexivity. Qed.
Lemma dedup_drops_simple_root_true : dedup_drops_simple_root = true.
Proof. vm_compute. reflexivity. Qed.
Lemma dedup_drops_last_root_true : dedup_drops_last_root = true.
Proof. vm_compute. reflexivity. Qed.
Lemma dedup_ok_cases_true : dedup_ok_cases = true.
Proof. vm_compute. reflexivity. Qed.
Lemma w_oracle_exact_true : w_oracle_exact = true.
Proof. vm_compute. reflexivity. Qed.
Lemma w_nonglobal_true : w_nonglobal = true.
Proof. vm_compute. reflexivity. Qed.
