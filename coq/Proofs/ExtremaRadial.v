(* Proofs/ExtremaRadial.v — C13 over R: Line.radialrange is the global
   extreme pair; bezier_radialrange is global under the oracle contract;
   Path.radialrange folds them with the index of an attaining segment. *)
From Coq Require Import ZArith List Bool Reals Lra Lia Classical.
From SVP Require Import Base.Num Base.Cplx Base.Poly Model.Bezier Model.Extrema
     Proofs.ExtremaLemmas Proofs.ExtremaBbox.
Import ListNotations.
Local Open Scope R_scope.

(* distance from z as coded: abs(complex) *)
Notation dist w z := (cabs NumTR (csub NumR w z)).
Definition sqd (w z : Cplx R) : R := (re w - re z) * (re w - re z) + (im w - im z) * (im w - im z).
Lemma dist_sqrt w z : dist w z = sqrt (sqd w z).
Proof. destruct w, z. unfold cabs, sqd. cunfold. numR. reflexivity. Qed.
Lemma sqd_nonneg w z : 0 <= sqd w z.
Proof.
  unfold sqd. pose proof (Rle_0_sqr (re w - re z)). pose proof (Rle_0_sqr (im w - im z)).
  unfold Rsqr in *. lra.
Qed.

(* ================= Line.radialrange ================= *)
Section Convex.
  Variables (D qs ts : R).
  Hypothesis HD : 0 < D.
  Definition q (t : R) := qs + D * ((t - ts) * (t - ts)).
  Ltac pos2 := apply Rmult_le_pos; [lra | apply Rmult_le_pos; lra].
  Lemma q_min t : q ts <= q t.
  Proof.
    assert (E : q t - q ts = D * ((t - ts) * (t - ts))) by (unfold q; ring).
    pose proof (Rle_0_sqr (t - ts)) as S. unfold Rsqr in S.
    assert (0 <= D * ((t - ts) * (t - ts))) by (apply Rmult_le_pos; lra). lra.
  Qed.
  Lemma q_half : q 0 < q 1 <-> ts < 1 / 2.
  Proof.
    assert (E : q 1 - q 0 = D * (1 - 2 * ts)) by (unfold q; ring). split; intros H.
    - destruct (Rlt_dec ts (1 / 2)); auto. exfalso.
      assert (0 <= D * (2 * ts - 1)) by (apply Rmult_le_pos; lra). lra.
    - assert (0 < D * (1 - 2 * ts)) by (apply Rmult_lt_0_compat; lra). lra.
  Qed.
  Lemma q_max1 : q 0 < q 1 -> forall t, 0 <= t <= 1 -> q t <= q 1.
  Proof.
    intros H t Ht. apply q_half in H.
    assert (E : q 1 - q t = D * ((1 - t) * (1 + t - 2 * ts))) by (unfold q; ring).
    assert (0 <= D * ((1 - t) * (1 + t - 2 * ts))) by pos2. lra.
  Qed.
  Lemma half_le : q 1 <= q 0 -> 1 / 2 <= ts.
  Proof.
    intros H. destruct (Rle_dec (1 / 2) ts); auto. exfalso.
    assert (q 0 < q 1) by (apply q_half; lra). lra.
  Qed.
  Lemma q_max0 : q 1 <= q 0 -> forall t, 0 <= t <= 1 -> q t <= q 0.
  Proof.
    intros H t Ht. apply half_le in H.
    assert (E : q 0 - q t = D * (t * (2 * ts - t))) by (unfold q; ring).
    assert (0 <= D * (t * (2 * ts - t))) by pos2. lra.
  Qed.
  Lemma q_mono_up : ~ (0 < ts < 1) -> q 0 < q 1 -> forall t, 0 <= t <= 1 -> q 0 <= q t.
  Proof.
    intros Hn H t Ht. apply q_half in H. assert (ts <= 0) by lra.
    assert (E : q t - q 0 = D * (t * (t - 2 * ts))) by (unfold q; ring).
    assert (0 <= D * (t * (t - 2 * ts))) by pos2. lra.
  Qed.
  Lemma q_mono_down : ~ (0 < ts < 1) -> q 1 <= q 0 -> forall t, 0 <= t <= 1 -> q 1 <= q t.
  Proof.
    intros Hn H t Ht. apply half_le in H. assert (1 <= ts) by lra.
    assert (E : q t - q 1 = D * ((1 - t) * (2 * ts - t - 1))) by (unfold q; ring).
    assert (0 <= D * ((1 - t) * (2 * ts - t - 1))) by pos2. lra.
  Qed.
End Convex.

Section LineRadial.
  Variables (sx sy ex ey zx zy : R).
  Hypothesis Hne : (sx, sy) <> (ex, ey).
  Let dx := ex - sx.
  Let dy := ey - sy.
  Let D := dx * dx + dy * dy.
  Let ts := (dx * (zx - sx) + dy * (zy - sy)) / D.
  Let P (t : R) : Cplx R := line_point NumR (sx, sy) (ex, ey) t.
  Let Q (t : R) := sqd (P t) (zx, zy).

  Lemma D_pos : 0 < D.
  Proof.
    unfold D. pose proof (Rle_0_sqr dx) as S1. pose proof (Rle_0_sqr dy) as S2.
    destruct (Req_dec dx 0) as [z1|n1].
    - destruct (Req_dec dy 0) as [z2|n2].
      + exfalso. apply Hne. unfold dx, dy in *. f_equal; lra.
      + pose proof (Rsqr_pos_lt dy n2). unfold Rsqr in *. lra.
    - pose proof (Rsqr_pos_lt dx n1). unfold Rsqr in *. lra.
  Qed.
  Lemma Q_form t : Q t = q D (Q ts) ts t.
  Proof.
    assert (G : forall u, Q u = ((sx - zx) * (sx - zx) + (sy - zy) * (sy - zy))
                                + 2 * u * ((sx - zx) * dx + (sy - zy) * dy) + u * u * D).
    { intros u. unfold Q, sqd, P, line_point, D, dx, dy. cunfold. numR. ring. }
    assert (E' : (sx - zx) * dx + (sy - zy) * dy = - (ts * D)).
    { pose proof D_pos as HD. unfold ts. field. lra. }
    unfold q. rewrite (G t), (G ts), E'. ring.
  Qed.
End LineRadial.

Lemma sqrt_lt_rev x y : sqrt x < sqrt y -> x < y.
Proof. apply sqrt_lt_0_alt. Qed.
Lemma sqrt_nlt_rev x y : 0 <= x -> 0 <= y -> ~ (sqrt x < sqrt y) -> y <= x.
Proof. intros Hx Hy H. apply sqrt_le_0; auto. lra. Qed.

Theorem line_radial_global s e z : s <> e ->
  let '((dmin, tmin), (dmax, tmax)) := line_radialrange NumR NumTR s e z in
  0 <= tmin <= 1 /\ 0 <= tmax <= 1 /\
  dmin = dist (line_point NumR s e tmin) z /\ dmax = dist (line_point NumR s e tmax) z /\
  forall t, 0 <= t <= 1 -> dmin <= dist (line_point NumR s e t) z <= dmax.
Proof.
  destruct s as [sx sy], e as [ex ey], z as [zx zy]. intros Hne.
  pose proof (D_pos sx sy ex ey Hne) as HD.
  set (D := (ex - sx) * (ex - sx) + (ey - sy) * (ey - sy)) in *.
  set (ts := ((ex - sx) * (zx - sx) + (ey - sy) * (zy - sy)) / D).
  set (P := fun t => line_point NumR (sx, sy) (ex, ey) t).
  set (Q := fun t => sqd (P t) (zx, zy)).
  pose (qs := Q ts).
  assert (QF : forall t, Q t = q D qs ts t) by (intros t; apply (Q_form sx sy ex ey zx zy Hne)).
  clearbody qs.
  assert (Dt : forall t, dist (P t) (zx, zy) = sqrt (Q t)) by (intros; apply dist_sqrt).
  assert (Qnn : forall t, 0 <= Q t) by (intros; apply sqd_nonneg).
  assert (E0 : cabs NumTR (csub NumR (sx, sy) (zx, zy)) = sqrt (Q 0)).
  { rewrite dist_sqrt. f_equal. unfold Q, P, sqd, line_point. cunfold. numR. ring. }
  assert (E1 : cabs NumTR (csub NumR (ex, ey) (zx, zy)) = sqrt (Q 1)).
  { rewrite dist_sqrt. f_equal. unfold Q, P, sqd, line_point. cunfold. numR. ring. }
  assert (Et : cabs NumTR (csub NumR (line_pt NumR (sx, sy) (ex, ey) ts) (zx, zy)) = sqrt (Q ts)).
  { rewrite dist_sqrt. f_equal. unfold Q, P, sqd, line_point, line_pt. cunfold. numR. ring. }
  unfold line_radialrange. cbn [re im fst snd]. cbn [sub mul add div NumR]. fold D. fold ts.
  rewrite E0, E1, Et. cbn [ltb NumR zero one].
  destruct (lt01 NumR ts) eqn:L.
  - apply lt01_R in L.
    destruct (Rlt_b (sqrt (Q 0)) (sqrt (Q 1))) eqn:C.
    + apply Rlt_b_true in C. apply sqrt_lt_rev in C. rewrite !QF in C.
      repeat split; try lra; try (symmetry; apply Dt).
      * rewrite (Dt t). apply sqrt_le_1_alt. rewrite (QF t), (QF ts). apply q_min; auto.
      * rewrite (Dt t). apply sqrt_le_1_alt. rewrite (QF t), (QF 1). apply q_max1; auto.
    + apply Rlt_b_false in C. assert (C' : Q 1 <= Q 0) by (apply sqrt_le_0; auto).
      rewrite !QF in C'.
      repeat split; try lra; try (symmetry; apply Dt).
      * rewrite (Dt t). apply sqrt_le_1_alt. rewrite (QF t), (QF ts). apply q_min; auto.
      * rewrite (Dt t). apply sqrt_le_1_alt. rewrite (QF t), (QF 0). apply q_max0; auto.
  - assert (Hn : ~ (0 < ts < 1)) by (intros H; apply lt01_R in H; congruence).
    destruct (Rlt_b (sqrt (Q 0)) (sqrt (Q 1))) eqn:C.
    + apply Rlt_b_true in C. apply sqrt_lt_rev in C. rewrite !QF in C.
      repeat split; try lra; try (symmetry; apply Dt).
      * rewrite (Dt t). apply sqrt_le_1_alt. rewrite (QF t), (QF 0). apply q_mono_up; auto.
      * rewrite (Dt t). apply sqrt_le_1_alt. rewrite (QF t), (QF 1). apply q_max1; auto.
    + apply Rlt_b_false in C. assert (C' : Q 1 <= Q 0) by (apply sqrt_le_0; auto).
      rewrite !QF in C'.
      repeat split; try lra; try (symmetry; apply Dt).
      * rewrite (Dt t). apply sqrt_le_1_alt. rewrite (QF t), (QF 1). apply q_mono_down; auto.
      * rewrite (Dt t). apply sqrt_le_1_alt. rewrite (QF t), (QF 0). apply q_max0; auto.
Qed.

(* ================= bezier_radialrange ================= *)
Section PolyC.
  (* real / imaginary part of a complex-coefficient polynomial at a real t *)
  Lemma cpeval_fold p : forall acc t,
      re (fold_left (fun y c => cadd NumR (cscale NumR t y) c) p acc)
      = fold_left (fun y c => add NumR (mul NumR y t) c) (map (@re R) p) (re acc) /\
      im (fold_left (fun y c => cadd NumR (cscale NumR t y) c) p acc)
      = fold_left (fun y c => add NumR (mul NumR y t) c) (map (@im R) p) (im acc).
  Proof.
    induction p as [|c p IH]; intros acc t; cbn [fold_left map]; [split; reflexivity|].
    destruct (IH (cadd NumR (cscale NumR t acc) c) t) as [H1 H2]. rewrite H1, H2.
    destruct acc, c. cunfold. numR. split; f_equal; ring.
  Qed.
  Lemma cpeval_re p t : re (cpeval NumR p t) = peval NumR (map (@re R) p) t.
  Proof. unfold cpeval, peval. destruct (cpeval_fold p (c0 NumR) t) as [H _]. exact H. Qed.
  Lemma cpeval_im p t : im (cpeval NumR p t) = peval NumR (map (@im R) p) t.
  Proof. unfold cpeval, peval. destruct (cpeval_fold p (c0 NumR) t) as [_ H]. exact H. Qed.

  Lemma shift_const_length p z : length (shift_const NumR p z) = length p.
  Proof.
    induction p as [|c p IH]; [reflexivity|]. destruct p as [|d p]; [reflexivity|].
    change (shift_const NumR (c :: d :: p) z) with (c :: shift_const NumR (d :: p) z).
    cbn [length] in *. now rewrite IH.
  Qed.
  Lemma shift_const_re p z t : p <> [] ->
    peval NumR (map (@re R) (shift_const NumR p z)) t = peval NumR (map (@re R) p) t - re z.
  Proof.
    induction p as [|c p IH]; [congruence|]. intros _. destruct p as [|d p].
    - destruct c, z. cbn [shift_const map]. rewrite !peval_cons, peval_nil. cunfold. numR. cbn. ring.
    - change (shift_const NumR (c :: d :: p) z) with (c :: shift_const NumR (d :: p) z).
      cbn [map]. rewrite !peval_cons. rewrite !map_length, shift_const_length.
      rewrite (IH ltac:(congruence)). cbn [map length]. rewrite ?peval_cons, ?map_length. ring.
  Qed.
  Lemma shift_const_im p z t : p <> [] ->
    peval NumR (map (@im R) (shift_const NumR p z)) t = peval NumR (map (@im R) p) t - im z.
  Proof.
    induction p as [|c p IH]; [congruence|]. intros _. destruct p as [|d p].
    - destruct c, z. cbn [shift_const map]. rewrite !peval_cons, peval_nil. cunfold. numR. cbn. ring.
    - change (shift_const NumR (c :: d :: p) z) with (c :: shift_const NumR (d :: p) z).
      cbn [map]. rewrite !peval_cons. rewrite !map_length, shift_const_length.
      rewrite (IH ltac:(congruence)). cbn [map length]. rewrite ?peval_cons, ?map_length. ring.
  Qed.

  (* r_squared evaluates to |poly(t) - z|^2 *)
  Lemma r_squared_eval p z t : p <> [] ->
    peval NumR (r_squared NumR p z) t = sqd (cpeval NumR p t) z.
  Proof.
    intros Hp. unfold r_squared. rewrite peval_padd, !peval_pmul.
    rewrite shift_const_re, shift_const_im by exact Hp.
    rewrite <- cpeval_re, <- cpeval_im. unfold sqd. reflexivity.
  Qed.
End PolyC.

Section BezierRadial.
  Variables (fixed : bool) (atol rtol : R) (p : list (Cplx R)) (point : R -> Cplx R) (z : Cplx R)
            (roots : list (Cplx R)).
  Hypothesis Hatol : 0 < atol.
  Hypothesis Hrtol : 0 <= rtol.
  Hypothesis Hp : p <> [].
  Hypothesis Hpoint : forall t, point t = cpeval NumR p t.     (* C03: point(t) = poly()(t) *)

  Notation G := (peval NumR (r_squared NumR p z)).
  Notation cands := (radial_cands NumR fixed atol rtol roots).
  Definition rad (t : R) : R := cabs NumTR (csub NumR (point t) z).
  Definition ext : list (R * R) := map (fun t => (rad t, t)) cands.
  Lemma brr_unfold : bezier_radialrange NumR NumTR fixed atol rtol point z roots = (kmin NumR ext, kmax NumR ext).
  Proof. reflexivity. Qed.

  Lemma rad_sqrt t : rad t = sqrt (G t).
  Proof. unfold rad. rewrite dist_sqrt, r_squared_eval by exact Hp. now rewrite Hpoint. Qed.
  Lemma G_nonneg t : 0 <= G t.
  Proof. rewrite r_squared_eval by exact Hp. apply sqd_nonneg. Qed.
  Lemma cands_01 c : In c cands -> 0 <= c <= 1.
  Proof.
    unfold radial_cands. cbn [app In]. numR. intros [<-|[<-|H]]; try lra.
    apply polyroots_sound in H. destruct H as [H _]. now apply le01_R.
  Qed.

  (* unconditional: both returned parameters are in [0,1] and the returned
     distances are the distances at those parameters *)
  Theorem bezier_radial_attained :
    let '((dmin, tmin), (dmax, tmax)) := bezier_radialrange NumR NumTR fixed atol rtol point z roots in
    0 <= tmin <= 1 /\ 0 <= tmax <= 1 /\ dmin = dist (point tmin) z /\ dmax = dist (point tmax) z.
  Proof.
    rewrite brr_unfold.
    assert (Hne : ext <> []) by (unfold ext, radial_cands; cbn; congruence).
    pose proof (kminR_in Hne) as Hmin. pose proof (kmaxR_in Hne) as Hmax.
    destruct (kmin NumR ext) as [dmin tmin]. destruct (kmax NumR ext) as [dmax tmax].
    apply in_map_iff in Hmin. destruct Hmin as (c & E & Hc). inversion E; subst.
    apply in_map_iff in Hmax. destruct Hmax as (c' & E' & Hc'). inversion E'; subst.
    repeat split; try apply (cands_01 _ Hc); try apply (cands_01 _ Hc'); reflexivity.
  Qed.

  (* global under the oracle contract *)
  Theorem bezier_radial_global :
    oracle_ok (r_squared_deriv NumR p z) roots -> separated fixed atol rtol (le01 NumR) roots ->
    let '((dmin, tmin), (dmax, tmax)) := bezier_radialrange NumR NumTR fixed atol rtol point z roots in
    forall t, 0 <= t <= 1 -> dmin <= dist (point t) z <= dmax.
  Proof.
    intros Hor Hsep. rewrite brr_unfold.
    pose proof (@kminR_le ext) as Hmin. pose proof (@kmaxR_ge ext) as Hmax.
    destruct (kmin NumR ext) as [dmin tmin]. destruct (kmax NumR ext) as [dmax tmax].
    cbn [fst] in *. intros t Ht.
    assert (Hcs : (exists s, peval NumR (pderiv NumR (r_squared NumR p z)) s <> 0) ->
                  forall u, 0 < u < 1 -> peval NumR (pderiv NumR (r_squared NumR p z)) u = 0 ->
                            In u (polyroots01 NumR atol rtol fixed roots)).
    { intros Hnz u Hu H0. apply polyroots_complete; auto.
      - apply Hor; auto. lra.
      - apply le01_R. lra. }
    destruct (@extreme_at_candidates_nz_ex G _ (peval_derivable _) _ Hcs t Ht)
      as [(c & Hc & Hle) (c' & Hc' & Hge)].
    change (0 :: 1 :: polyroots01 NumR atol rtol fixed roots) with cands in Hc, Hc'.
    change (cabs NumTR (csub NumR (point t) z)) with (rad t).
    split.
    - eapply Rle_trans; [apply (Hmin (rad c, c))|].
      + unfold ext. apply in_map_iff. exists c; auto.
      + cbn [fst]. rewrite (rad_sqrt c), (rad_sqrt t). apply sqrt_le_1_alt. exact Hle.
    - eapply Rle_trans; [|apply (Hmax (rad c', c'))].
      + cbn [fst]. rewrite (rad_sqrt c'), (rad_sqrt t). apply sqrt_le_1_alt. exact Hge.
      + unfold ext. apply in_map_iff. exists c'; auto.
  Qed.
End BezierRadial.

(* ================= Path.radialrange: any carrier with a sane order ================= *)
Section PathRadial.
  Context {K : Type} (N : Num K) (OK : OrdOK N).
  Notation seg_t := ((K * K) * (K * K))%type.
  Notation st_t := (@gmin_t K * @gmax_t K)%type.

  Definition Inv (pre : list seg_t) (st : st_t) : Prop :=
    (match fst st with
     | None => pre = []
     | Some (d, t, i) => (exists mx, nth_error pre i = Some ((d, t), mx)) /\
                         forall sg, In sg pre -> nle N d (fst (fst sg))
     end) /\
    (forall sg, In sg pre -> nle N (fst (snd sg)) (fst (snd st))) /\
    (match snd (snd st) with
     | None => fst (snd st) = zero N
     | Some (t, i) => exists mn, nth_error pre i = Some (mn, (fst (snd st), t))
     end).

  Lemma nth_error_snoc_old {A} (pre : list A) x i y :
    nth_error pre i = Some y -> nth_error (pre ++ [x]) i = Some y.
  Proof.
    intros H. rewrite nth_error_app1; auto. apply nth_error_Some. congruence.
  Qed.
  Lemma nth_error_snoc_new {A} (pre : list A) x : nth_error (pre ++ [x]) (length pre) = Some x.
  Proof. rewrite nth_error_app2 by lia. now rewrite Nat.sub_diag. Qed.

  Lemma Inv_step pre st sg : Inv pre st -> Inv (pre ++ [sg]) (prr_step N st (length pre, sg)).
  Proof.
    destruct st as [gmin [gd go]]. destruct sg as [[dmin tmin] [dmax tmax]].
    intros (I1 & I2 & I3). cbn [fst snd] in *. unfold prr_step. cbn [fst snd]. repeat split.
    - (* min *)
      destruct gmin as [[[d t] i]|].
      + destruct I1 as [(mx & Hn) Hall]. destruct (ltb N dmin d) eqn:E; cbn [fst].
        * split; [eexists; apply nth_error_snoc_new|].
          intros sg Hin. apply in_app_or in Hin. destruct Hin as [Hin|[<-|[]]]; cbn [fst].
          -- eapply (nle_trans OK); [|apply Hall; exact Hin]. unfold nle. apply (lt_asym OK). exact E.
          -- apply (nle_refl OK).
        * split; [exists mx; apply nth_error_snoc_old; exact Hn|].
          intros sg Hin. apply in_app_or in Hin. destruct Hin as [Hin|[<-|[]]]; cbn [fst]; auto.
      + subst pre. cbn [fst app length]. split; [eexists; reflexivity|].
        intros sg [<-|[]]. cbn [fst]. apply (nle_refl OK).
    - (* max: bound *)
      intros sg Hin. destruct (ltb N gd dmax) eqn:E; cbn [fst].
      + apply in_app_or in Hin. destruct Hin as [Hin|[<-|[]]]; cbn [fst snd].
        * eapply (nle_trans OK); [apply I2; exact Hin|]. unfold nle. apply (lt_asym OK). exact E.
        * apply (nle_refl OK).
      + apply in_app_or in Hin. destruct Hin as [Hin|[<-|[]]]; cbn [fst snd]; auto.
    - (* max: attained *)
      destruct (ltb N gd dmax) eqn:E; cbn [fst snd].
      + eexists; apply nth_error_snoc_new.
      + destruct go as [[t i]|]; auto. destruct I3 as (mn & Hn). exists mn. apply nth_error_snoc_old; exact Hn.
  Qed.

  Lemma Inv_fold l : forall pre st, Inv pre st ->
    Inv (pre ++ l) (fold_left (prr_step N) (enum_from (length pre) l) st).
  Proof.
    induction l as [|sg l IH]; intros pre st HI; cbn [enum_from fold_left].
    - now rewrite app_nil_r.
    - pose proof (IH (pre ++ [sg]) _ (Inv_step pre st sg HI)) as H.
      rewrite app_length in H. cbn [length] in H. rewrite Nat.add_1_r in H.
      rewrite <- app_assoc in H. exact H.
  Qed.

  Theorem path_radial_inv segs : Inv segs (path_radialrange N segs).
  Proof.
    unfold path_radialrange. apply (Inv_fold segs [] (None, (zero N, None))).
    repeat split; cbn; auto. intros sg [].
  Qed.

  (* the minimum: defined as soon as the path is not empty *)
  Theorem path_radial_min segs : segs <> [] ->
    exists d t i mx, closest_point_in_path N segs = Some (d, t, i) /\
      nth_error segs i = Some ((d, t), mx) /\
      forall sg, In sg segs -> nle N d (fst (fst sg)).
  Proof.
    intros Hne. destruct (path_radial_inv segs) as (I1 & _). unfold closest_point_in_path.
    destruct (fst (path_radialrange N segs)) as [[[d t] i]|]; [|congruence].
    destruct I1 as [(mx & Hn) Hall]. exists d, t, i, mx. auto.
  Qed.
  (* the maximum: bound always; index when some segment has dmax > 0 *)
  Theorem path_radial_max segs :
    let '(d, o) := farthest_point_in_path N segs in
    (forall sg, In sg segs -> nle N (fst (snd sg)) d) /\
    ((exists sg, In sg segs /\ ltb N (zero N) (fst (snd sg)) = true) ->
     exists t i mn, o = Some (t, i) /\ nth_error segs i = Some (mn, (d, t))).
  Proof.
    destruct (path_radial_inv segs) as (_ & I2 & I3). unfold farthest_point_in_path.
    destruct (snd (path_radialrange N segs)) as [d o]. cbn [fst snd] in *. split; [exact I2|].
    intros (sg & Hin & Hpos). destruct o as [[t i]|].
    - destruct I3 as (mn & Hn). exists t, i, mn. auto.
    - subst d. specialize (I2 sg Hin). unfold nle in I2. congruence.
  Qed.
End PathRadial.

(* ================= path level over R: composition with per-segment globality ================= *)
Definition seg_global (c : R -> Cplx R) (z : Cplx R) (r : (R * R) * (R * R)) : Prop :=
  let '((dmin, tmin), (dmax, tmax)) := r in
  0 <= tmin <= 1 /\ 0 <= tmax <= 1 /\ dmin = dist (c tmin) z /\ dmax = dist (c tmax) z /\
  forall t, 0 <= t <= 1 -> dmin <= dist (c t) z <= dmax.

Section PathGlobalR.
  Variables (segs : list ((R -> Cplx R) * ((R * R) * (R * R)))) (z : Cplx R).
  Hypothesis Hne : segs <> [].
  Hypothesis Hseg : forall c r, In (c, r) segs -> seg_global c z r.
  Let res := map snd segs.

  Lemma nth_res i r : nth_error res i = Some r -> exists c, nth_error segs i = Some (c, r).
  Proof.
    unfold res. rewrite nth_error_map. destruct (nth_error segs i) as [[c r']|]; cbn; [|discriminate].
    intros E. inversion E; subst. exists c; reflexivity.
  Qed.

  Theorem path_closest_global :
    exists d t i c r, closest_point_in_path NumR res = Some (d, t, i) /\
      nth_error segs i = Some (c, r) /\ 0 <= t <= 1 /\ d = dist (c t) z /\
      forall c' r' u, In (c', r') segs -> 0 <= u <= 1 -> d <= dist (c' u) z.
  Proof.
    assert (Hne' : res <> []) by (unfold res; destruct segs; cbn; congruence).
    destruct (path_radial_min NumR OrdOK_R res Hne') as (d & t & i & mx & E & Hn & Hall).
    destruct (nth_res _ _ Hn) as (c & Hc).
    pose proof (Hseg c _ (nth_error_In _ _ Hc)) as G. destruct mx as [dmax tmax]. unfold seg_global in G.
    destruct G as (Ht & _ & Ed & _ & _).
    exists d, t, i, c, ((d, t), (dmax, tmax)). repeat split; auto; try lra.
    intros c' r' u Hin Hu.
    assert (Hr : In r' res) by (unfold res; apply in_map_iff; exists (c', r'); auto).
    specialize (Hall r' Hr). apply nle_R in Hall.
    pose proof (Hseg c' r' Hin) as G'. destruct r' as [[dmin' tmin'] [dmax' tmax']]. unfold seg_global in G'. cbn [fst snd] in Hall.
    destruct G' as (_ & _ & _ & _ & G'). specialize (G' u Hu). lra.
  Qed.

  Theorem path_farthest_global :
    (exists c r, In (c, r) segs /\ 0 < fst (snd r)) ->
    exists d t i c r, farthest_point_in_path NumR res = (d, Some (t, i)) /\
      nth_error segs i = Some (c, r) /\ 0 <= t <= 1 /\ d = dist (c t) z /\
      forall c' r' u, In (c', r') segs -> 0 <= u <= 1 -> dist (c' u) z <= d.
  Proof.
    intros (c0 & r0 & Hin0 & Hpos).
    pose proof (path_radial_max NumR OrdOK_R res) as H.
    destruct (farthest_point_in_path NumR res) as [d o]. destruct H as [Hall Hidx].
    destruct Hidx as (t & i & mn & -> & Hn).
    { exists r0. split; [unfold res; apply in_map_iff; exists (c0, r0); auto|].
      cbn [ltb NumR zero]. apply Rlt_b_true. exact Hpos. }
    destruct (nth_res _ _ Hn) as (c & Hc).
    pose proof (Hseg c _ (nth_error_In _ _ Hc)) as G. destruct mn as [dmin tmin]. unfold seg_global in G.
    destruct G as (_ & Ht & _ & Ed & _).
    exists d, t, i, c, ((dmin, tmin), (d, t)). repeat split; auto; try lra.
    intros c' r' u Hin Hu.
    assert (Hr : In r' res) by (unfold res; apply in_map_iff; exists (c', r'); auto).
    specialize (Hall r' Hr). apply nle_R in Hall.
    pose proof (Hseg c' r' Hin) as G'. destruct r' as [[dmin' tmin'] [dmax' tmax']]. unfold seg_global in G'. cbn [fst snd] in Hall.
    destruct G' as (_ & _ & _ & _ & G'). specialize (G' u Hu). lra.
  Qed.
End PathGlobalR.
