(* Proofs/SvgTreeAlg.v — matrix algebra for C17 over an arbitrary field
   (axiom-free): 3x3 matrices form a monoid, each transform item of
   parser.py equals the matrix SVG 1.1 §7.6 gives it, parse_transform of a
   list is the product in order. *)
From Coq Require Import ZArith List Bool Field Lia.
From SVP Require Import Base.Num Base.FieldTac Model.SvgTree.
Import ListNotations.

Section Alg.
  Context {K : Type} (N : Num K) (OK : NumFieldOK N).
  Add Field KF : (Fth OK).

  Ltac mat_ring :=
    intros;
    repeat match goal with M : mat |- _ =>
      let a1 := fresh "a" in let a2 := fresh "a" in let a3 := fresh "a" in
      let a4 := fresh "a" in let a5 := fresh "a" in let a6 := fresh "a" in
      let a7 := fresh "a" in let a8 := fresh "a" in let a9 := fresh "a" in
      destruct M as [a1 a2 a3 a4 a5 a6 a7 a8 a9] end;
    unfold mmul, mI, aff, set13_23; cbn [m11 m12 m13 m21 m22 m23 m31 m32 m33];
    f_equal; ring.

  Lemma mmul_assoc (A B C : @mat K) : mmul N (mmul N A B) C = mmul N A (mmul N B C).
  Proof. mat_ring. Qed.
  Lemma mmul_I_l (A : @mat K) : mmul N (mI N) A = A.
  Proof. mat_ring. Qed.
  Lemma mmul_I_r (A : @mat K) : mmul N A (mI N) = A.
  Proof. mat_ring. Qed.

  (* ---- one item: parser.py = SVG 1.1 §7.6, all legal argument counts ---- *)
  Lemma impl_item_spec (t : titem) : impl_item N (of_titem N t) = titem_spec N t.
  Proof.
    destruct t as [a b c d e f|x [y|]|x [y|]|c s [[cx cy]|]|t|t];
      unfold impl_item, of_titem, titem_spec, odef;
      cbn [r_name r_vals r_cos r_sin r_tan];
      unfold mmul, mI, aff, set13_23; cbn [m11 m12 m13 m21 m22 m23 m31 m32 m33];
      f_equal; ring.
  Qed.

  (* rotate about a centre is T(c) R T(-c) *)
  Lemma rotate_about_centre c s cx cy :
    titem_spec N (TRotate c s (Some (cx, cy)))
    = mmul N (mmul N (titem_spec N (TTranslate cx (Some cy))) (titem_spec N (TRotate c s None)))
             (titem_spec N (TTranslate (opp N cx) (Some (opp N cy)))).
  Proof.
    unfold titem_spec, odef, mmul, aff; cbn [m11 m12 m13 m21 m22 m23 m31 m32 m33].
    f_equal; ring.
  Qed.

  (* wrong value counts / unknown names give the identity (with a warning) *)
  Lemma impl_item_bad_count_matrix vals c s t :
    length vals <> 6%nat -> impl_item N (mkRaw NMatrix vals c s t) = mI N.
  Proof.
    intros H. unfold impl_item; cbn [r_name r_vals].
    do 6 (destruct vals as [|? vals]; try reflexivity).
    destruct vals; [cbn in H; lia | reflexivity].
  Qed.
  Lemma impl_item_bad_count_translate vals c s t :
    length vals <> 1%nat -> length vals <> 2%nat ->
    impl_item N (mkRaw NTranslate vals c s t) = mI N
    /\ impl_item N (mkRaw NScale vals c s t) = mI N.
  Proof.
    intros H1 H2. unfold impl_item; cbn [r_name r_vals].
    destruct vals as [|? vals]; [split; reflexivity|].
    destruct vals as [|? vals]; [cbn in *; lia|].
    destruct vals as [|? vals]; [cbn in *; lia|split; reflexivity].
  Qed.
  Lemma impl_item_bad_count_rotate vals c s t :
    length vals <> 1%nat -> length vals <> 3%nat ->
    impl_item N (mkRaw NRotate vals c s t) = mI N.
  Proof.
    intros H1 H3. unfold impl_item; cbn [r_name r_vals].
    destruct vals as [|? vals]; [reflexivity|].
    destruct vals as [|? vals]; [cbn in *; lia|].
    destruct vals as [|? vals]; [reflexivity|].
    destruct vals as [|? vals]; [cbn in *; lia|reflexivity].
  Qed.
  Lemma impl_item_bad_count_skew vals c s t :
    length vals <> 1%nat ->
    impl_item N (mkRaw NSkewX vals c s t) = mI N /\ impl_item N (mkRaw NSkewY vals c s t) = mI N.
  Proof.
    intros H1. unfold impl_item; cbn [r_name r_vals].
    destruct vals as [|? vals]; [split; reflexivity|].
    destruct vals as [|? vals]; [cbn in *; lia|split; reflexivity].
  Qed.
  Lemma impl_item_unknown vals c s t : impl_item N (mkRaw NUnknown vals c s t) = mI N.
  Proof. reflexivity. Qed.

  (* ---- a list: left fold of dot = product in order ---- *)
  Lemma parse_fold (l : list (@titem K)) : forall acc,
      fold_left (fun acc r => mmul N acc (impl_item N r)) (map (of_titem N) l) acc
      = mmul N acc (tlist_spec N l).
  Proof.
    induction l as [|t l IH]; intros acc; cbn [map fold_left tlist_spec].
    - symmetry; apply mmul_I_r.
    - rewrite IH, impl_item_spec, mmul_assoc. reflexivity.
  Qed.

  Lemma parse_tf_spec (l : list (@titem K)) : parse_tf N l = tlist_spec N l.
  Proof. unfold parse_tf, parse_transform. rewrite parse_fold. apply mmul_I_l. Qed.

  Lemma tlist_spec_app (l1 l2 : list (@titem K)) :
    tlist_spec N (l1 ++ l2) = mmul N (tlist_spec N l1) (tlist_spec N l2).
  Proof.
    induction l1 as [|t l1 IH]; cbn [app tlist_spec].
    - symmetry; apply mmul_I_l.
    - rewrite IH, mmul_assoc. reflexivity.
  Qed.

  (* the product along a chain of nested elements, outermost first, is the
     matrix of the concatenated transform list *)
  Lemma chain_product (tfs : list (list (@titem K))) : forall M0,
      fold_left (fun A tf => mmul N A (tlist_spec N tf)) tfs M0
      = mmul N M0 (tlist_spec N (concat tfs)).
  Proof.
    induction tfs as [|tf tfs IH]; intros M0; cbn [fold_left concat].
    - cbn [tlist_spec]. symmetry; apply mmul_I_r.
    - rewrite IH, tlist_spec_app, mmul_assoc. reflexivity.
  Qed.

  (* the point map of a product is the composition: the innermost transform
     acts first *)
  Lemma pt_apply_mmul (A B : @mat K) p :
    m31 B = zero N -> m32 B = zero N -> m33 B = one N ->
    pt_apply N (mmul N A B) p = pt_apply N A (pt_apply N B p).
  Proof.
    destruct A as [a1 a2 a3 a4 a5 a6 a7 a8 a9], B as [b1 b2 b3 b4 b5 b6 b7 b8 b9], p as [x y];
      cbn [m31 m32 m33]; intros -> -> ->.
    unfold pt_apply, mmul; cbn [m11 m12 m13 m21 m22 m23 m31 m32 m33 fst snd].
    f_equal; ring.
  Qed.

  Definition affine (M : @mat K) : Prop := m31 M = zero N /\ m32 M = zero N /\ m33 M = one N.
  Lemma affine_spec t : affine (titem_spec N t).
  Proof.
    destruct t as [a b c d e f|x [y|]|x [y|]|c s [[cx cy]|]|t|t]; repeat split; reflexivity.
  Qed.
  Lemma affine_I : affine (mI N). Proof. repeat split; reflexivity. Qed.
  Lemma affine_mmul A B : affine A -> affine B -> affine (mmul N A B).
  Proof.
    destruct A as [a1 a2 a3 a4 a5 a6 a7 a8 a9], B as [b1 b2 b3 b4 b5 b6 b7 b8 b9];
      unfold affine; cbn [m31 m32 m33]; intros (-> & -> & ->) (-> & -> & ->).
    unfold mmul; cbn [m11 m12 m13 m21 m22 m23 m31 m32 m33]. repeat split; ring.
  Qed.
  Lemma affine_tlist l : affine (tlist_spec N l).
  Proof. induction l; cbn [tlist_spec]; [apply affine_I|apply affine_mmul; auto using affine_spec]. Qed.

  (* SaxDocument.generate_dom writes an affine matrix so that reading the
     attribute back (SVG 1.1 §7.6 matrix(a b c d e f)) gives the same matrix *)
  Lemma sax_dom_matrix_roundtrip (M : @mat K) c s t :
    affine M -> impl_item N (mkRaw NMatrix (sax_dom_matrix M) c s t) = M.
  Proof.
    destruct M as [a1 a2 a3 a4 a5 a6 a7 a8 a9]. unfold affine; cbn [m31 m32 m33].
    intros (-> & -> & ->). reflexivity.
  Qed.
  Lemma sax_dom_matrix_spec (M : @mat K) :
    affine M ->
    match sax_dom_matrix M with
    | [a; b; c; d; e; f] => titem_spec N (TMatrix a b c d e f) = M
    | _ => False
    end.
  Proof.
    destruct M as [a1 a2 a3 a4 a5 a6 a7 a8 a9]. unfold affine; cbn [m31 m32 m33].
    intros (-> & -> & ->). reflexivity.
  Qed.

  (* what each item does to a point (SVG 1.1 §7.6 in coordinates) *)
  Lemma translate_point x y p :
    pt_apply N (titem_spec N (TTranslate x (Some y))) p = (add N (fst p) x, add N (snd p) y).
  Proof. destruct p; unfold pt_apply, titem_spec, aff, odef; cbn; f_equal; ring. Qed.
  Lemma scale_point x y p :
    pt_apply N (titem_spec N (TScale x (Some y))) p = (mul N x (fst p), mul N y (snd p)).
  Proof. destruct p; unfold pt_apply, titem_spec, aff, odef; cbn; f_equal; ring. Qed.
  Lemma rotate_point c s p :
    pt_apply N (titem_spec N (TRotate c s None)) p
    = (sub N (mul N c (fst p)) (mul N s (snd p)), add N (mul N s (fst p)) (mul N c (snd p))).
  Proof. destruct p; unfold pt_apply, titem_spec, aff; cbn; f_equal; ring. Qed.
  Lemma skewx_point t p :
    pt_apply N (titem_spec N (TSkewX t)) p = (add N (fst p) (mul N t (snd p)), snd p).
  Proof. destruct p; unfold pt_apply, titem_spec, aff; cbn; f_equal; ring. Qed.
  Lemma skewy_point t p :
    pt_apply N (titem_spec N (TSkewY t)) p = (fst p, add N (snd p) (mul N t (fst p))).
  Proof. destruct p; unfold pt_apply, titem_spec, aff; cbn; f_equal; ring. Qed.
  Lemma matrix_point a b c d e f p :
    pt_apply N (titem_spec N (TMatrix a b c d e f)) p
    = (add N (add N (mul N a (fst p)) (mul N c (snd p))) e,
       add N (add N (mul N b (fst p)) (mul N d (snd p))) f).
  Proof. destruct p; unfold pt_apply, titem_spec, aff; cbn; f_equal; ring. Qed.
End Alg.
