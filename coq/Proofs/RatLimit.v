(* Proofs/RatLimit.v — polytools.rational_limit (Model/BezierN.v, section
   RatLimit) at the instance NumR:
   * when f and g share a zero of the same order k at t0 the function returns
     f1(t0)/g1(t0) (f = (x-t0)^k f1, g = (x-t0)^k g1, g1(t0) <> 0), and this
     is the limit of f/g at t0 (Coquelicot is_lim);
   * when the zero of f has strictly lower order than that of g the result
     is RLvalueerror (the code raises ValueError; the limit is infinite);
   * fuel >= length g is always enough (never RLfuel).
   Self-contained: the Horner lemmas over R are re-proved here so that the
   file only depends on Base/ and Model/BezierN.v. *)
From Coq Require Import ZArith List Bool Reals Lra Lia.
From Coquelicot Require Import Coquelicot.
From SVP Require Import Base.Num Base.Cplx Base.Poly Model.Bezier Model.BezierN.
Import ListNotations.
Set Implicit Arguments.
Local Open Scope R_scope.

Local Notation pev := (peval NumR).
Local Notation pd := (pderiv NumR).

(* ------------------------------------------------------------------ *)
(* Horner evaluation over R *)
Lemma rl_fold_horner p : forall acc x,
    fold_left (fun y c => add NumR (mul NumR y x) c) p acc = acc * x ^ length p + pev p x.
Proof.
  unfold peval. induction p as [|c p IH]; intros acc x; cbn [fold_left length].
  - cbn. lra.
  - rewrite IH. rewrite (IH (add NumR (mul NumR (zero NumR) x) c)). cbn. ring.
Qed.
Lemma rl_peval_cons c p x : pev (c :: p) x = c * x ^ length p + pev p x.
Proof. unfold peval at 1. cbn [fold_left]. rewrite rl_fold_horner. cbn. ring. Qed.
Lemma rl_peval_nil x : pev [] x = 0.
Proof. reflexivity. Qed.

Lemma rl_pderiv_length p : length (pd p) = (length p - 1)%nat.
Proof.
  induction p as [|c p IH]; [reflexivity|]. cbn [pderiv].
  destruct p as [|d q]; [reflexivity|]. cbn [length] in *. rewrite IH. lia.
Qed.

Lemma rl_peval_derivable p x : derivable_pt_lim (pev p) x (pev (pd p) x).
Proof.
  induction p as [|c p IH].
  - cbn. apply (derivable_pt_lim_const 0).
  - destruct p as [|d q].
    + cbn [pderiv]. rewrite rl_peval_nil.
      eapply derivable_pt_lim_ext with (f := fun _ => c).
      * intros y. rewrite rl_peval_cons. cbn. lra.
      * apply derivable_pt_lim_const.
    + set (p := d :: q) in *.
      assert (E : pd (c :: p) = mul NumR (lit NumR (Z.of_nat (length p))) c :: pd p)
        by reflexivity.
      rewrite E, rl_peval_cons, rl_pderiv_length. rewrite lit_R.
      eapply derivable_pt_lim_ext with (f := fun y => c * y ^ length p + pev p y).
      * intros y. rewrite rl_peval_cons. reflexivity.
      * replace (mul NumR (IZR (Z.of_nat (length p))) c * x ^ (length p - 1) + pev (pd p) x)
          with (c * (INR (length p) * x ^ pred (length p)) + pev (pd p) x).
        -- apply derivable_pt_lim_plus; [|exact IH].
           apply derivable_pt_lim_scal. apply derivable_pt_lim_pow.
        -- rewrite <- INR_IZR_INZ. cbn [mul NumR].
           replace (pred (length p)) with (length p - 1)%nat by lia. ring.
Qed.

Lemma rl_peval_is_derive p x : is_derive (pev p) x (pev (pd p) x).
Proof. apply is_derive_Reals, rl_peval_derivable. Qed.

Lemma rl_peval_continuity p x : continuity_pt (pev p) x.
Proof.
  apply derivable_continuous_pt. exists (pev (pd p) x). apply rl_peval_derivable.
Qed.

Lemma rl_peval_zeros k p x : pev (repeat 0 k ++ p) x = pev p x.
Proof. induction k; cbn [repeat app]; [reflexivity|]. rewrite rl_peval_cons, IHk. ring. Qed.
Lemma rl_peval_app_zeros p k x : pev (p ++ repeat 0 k) x = pev p x * x ^ k.
Proof.
  induction p as [|c p IH]; cbn [app].
  - rewrite <- (app_nil_r (repeat 0 k)), rl_peval_zeros. cbn. ring.
  - rewrite !rl_peval_cons, IH, app_length, repeat_length, pow_add. ring.
Qed.
Lemma rl_peval_map2 (p q : list R) x : length p = length q ->
  pev (map (fun ab => add NumR (fst ab) (snd ab)) (combine p q)) x = pev p x + pev q x.
Proof.
  revert q; induction p as [|a p IH]; intros [|b q] H; cbn in H; try discriminate.
  - cbn. lra.
  - cbn [combine map fst snd]. rewrite !rl_peval_cons, IH by lia.
    rewrite map_length, combine_length.
    replace (Nat.min (length p) (length q)) with (length p) by lia.
    replace (length q) with (length p) by lia. cbn. ring.
Qed.
Lemma rl_peval_padd p q x : pev (padd NumR p q) x = pev p x + pev q x.
Proof.
  unfold padd. rewrite rl_peval_map2.
  - change (zero NumR) with 0. rewrite !rl_peval_zeros. reflexivity.
  - rewrite !app_length, !repeat_length. lia.
Qed.
Lemma rl_peval_pscale c p x : pev (pscale NumR c p) x = c * pev p x.
Proof.
  induction p as [|a p IH]; cbn [pscale map]; [cbn; lra|].
  fold (pscale NumR c p). rewrite !rl_peval_cons, IH. unfold pscale. rewrite map_length. cbn. ring.
Qed.
Lemma rl_peval_pmul p q x : pev (pmul NumR p q) x = pev p x * pev q x.
Proof.
  induction p as [|c p IH]; cbn [pmul]; [cbn; lra|].
  rewrite rl_peval_padd, IH. change (zero NumR) with 0.
  rewrite rl_peval_app_zeros, rl_peval_pscale, rl_peval_cons. ring.
Qed.

(* ------------------------------------------------------------------ *)
(* boolean tests *)
Lemma Req_b_false x y : Req_b x y = false <-> x <> y.
Proof. unfold Req_b; destruct (Req_EM_T x y); split; congruence. Qed.

Lemma all_zero_peval p : all_zero NumR p = true -> forall x, pev p x = 0.
Proof.
  induction p as [|c p IH]; intros H x; [reflexivity|].
  cbn [all_zero forallb] in H. apply andb_true_iff in H. destruct H as [Hc Hp].
  cbn in Hc. apply Req_b_true in Hc. rewrite rl_peval_cons, (IH Hp), Hc. ring.
Qed.

Lemma rl_unfold fuel f g t0 :
  rational_limit NumR fuel f g t0 =
  if all_zero NumR g then RLassert
  else if negb (Req_b (pev g t0) 0) then RLok (pev f t0 / pev g t0)
  else if Req_b (pev f t0) 0 then
    match fuel with
    | O => RLfuel
    | S k => rational_limit NumR k (pd f) (pd g) t0
    end
  else RLvalueerror.
Proof. destruct fuel; reflexivity. Qed.

(* ------------------------------------------------------------------ *)
(* the derivative of (x - t0)^(S k) * h(x) is (x - t0)^k * h'(x) with
   h' = (S k) h + (x - t0) * dh, again a coefficient list *)
Definition shiftd (t0 : R) (k : nat) (h : list R) : list R :=
  padd NumR (pscale NumR (INR (S k)) h) (pmul NumR [1; - t0] (pd h)).

Lemma pev_shiftd t0 k h x :
  pev (shiftd t0 k h) x = INR (S k) * pev h x + (x - t0) * pev (pd h) x.
Proof.
  unfold shiftd. rewrite rl_peval_padd, rl_peval_pscale, rl_peval_pmul.
  rewrite !rl_peval_cons, rl_peval_nil. cbn [length]. simpl pow. ring.
Qed.

Lemma pev_shiftd_t0 t0 k h : pev (shiftd t0 k h) t0 = INR (S k) * pev h t0.
Proof. rewrite pev_shiftd. ring. Qed.

Lemma pderiv_factor t0 k p h :
  (forall x, pev p x = (x - t0) ^ S k * pev h x) ->
  forall x, pev (pd p) x = (x - t0) ^ k * pev (shiftd t0 k h) x.
Proof.
  intros H x. rewrite pev_shiftd.
  apply (uniqueness_limite (pev p) x); [apply rl_peval_derivable|].
  apply derivable_pt_lim_ext with (f := fun y => (y - t0) ^ S k * pev h y);
    [intro; symmetry; apply H|].
  apply is_derive_Reals. auto_derive.
  - exists (pev (pd h) x). apply rl_peval_is_derive.
  - replace (Derive _ x) with (pev (pd h) x) by (symmetry; apply is_derive_unique, rl_peval_is_derive).
    change (match k with 0%nat => 1 | S _ => INR k + 1 end) with (INR (S k)).
    replace (x + - t0) with (x - t0) by ring. generalize ((x - t0) ^ k) (INR (S k)). intros; ring.
Qed.

(* semantic equality is preserved by pderiv *)
Lemma pderiv_ext p q :
  (forall x, pev p x = pev q x) -> forall x, pev (pd p) x = pev (pd q) x.
Proof.
  intros H x. apply (uniqueness_limite (pev p) x); [apply rl_peval_derivable|].
  apply derivable_pt_lim_ext with (f := pev q); [intro; symmetry; apply H|].
  apply rl_peval_derivable.
Qed.

Lemma pderiv_zero p : (forall x, pev p x = 0) -> forall x, pev (pd p) x = 0.
Proof.
  intros H x. rewrite (@pderiv_ext p []); [reflexivity|]. intros y. rewrite H. reflexivity.
Qed.

Lemma INR_S_neq0 k : INR (S k) <> 0.
Proof. apply not_0_INR. discriminate. Qed.

(* an identically zero polynomial has no factorisation (x-t0)^k h, h(t0) <> 0 *)
Lemma zero_factor t0 k : forall p h,
  (forall x, pev p x = 0) ->
  (forall x, pev p x = (x - t0) ^ k * pev h x) -> pev h t0 = 0.
Proof.
  induction k as [|k IH]; intros p h Hz Hf.
  - rewrite <- (Hz t0), Hf. simpl. ring.
  - assert (E : pev (shiftd t0 k h) t0 = 0)
      by (apply (IH (pd p)); [apply pderiv_zero, Hz|apply pderiv_factor, Hf]).
    rewrite pev_shiftd_t0 in E. apply Rmult_integral in E. destruct E as [E|E]; [|exact E].
    exfalso. exact (@INR_S_neq0 k E).
Qed.

Lemma factor_not_all_zero t0 k g g1 :
  pev g1 t0 <> 0 ->
  (forall x, pev g x = (x - t0) ^ k * pev g1 x) -> all_zero NumR g = false.
Proof.
  intros Hnz Hg. destruct (all_zero NumR g) eqn:E; [|reflexivity].
  exfalso. apply Hnz. eapply zero_factor; [apply all_zero_peval, E|exact Hg].
Qed.

(* ------------------------------------------------------------------ *)
(* (T1) common zero of order k: the result is f1(t0)/g1(t0) *)
Theorem rational_limit_common_zero : forall (k : nat) (f1 g1 : list R) (t0 : R),
  pev g1 t0 <> 0 ->
  forall f g : list R,
  (forall x, pev f x = (x - t0) ^ k * pev f1 x) ->
  (forall x, pev g x = (x - t0) ^ k * pev g1 x) ->
  forall fuel, (k <= fuel)%nat ->
  rational_limit NumR fuel f g t0 = RLok (pev f1 t0 / pev g1 t0).
Proof.
  induction k as [|k IH]; intros f1 g1 t0 Hnz f g Hf Hg fuel Hfuel.
  - rewrite rl_unfold, (@factor_not_all_zero t0 _ g g1 Hnz Hg).
    assert (Eg : pev g t0 = pev g1 t0) by (rewrite Hg; simpl; ring).
    assert (Ef : pev f t0 = pev f1 t0) by (rewrite Hf; simpl; ring).
    rewrite Eg, Ef. rewrite (proj2 (Req_b_false _ _) Hnz). reflexivity.
  - rewrite rl_unfold, (@factor_not_all_zero t0 _ g g1 Hnz Hg).
    assert (Eg : pev g t0 = 0) by (rewrite Hg; simpl; ring).
    assert (Ef : pev f t0 = 0) by (rewrite Hf; simpl; ring).
    rewrite Eg, Ef. rewrite (proj2 (Req_b_true 0 0) eq_refl). cbn [negb].
    destruct fuel as [|fuel]; [lia|].
    rewrite (IH (shiftd t0 k f1) (shiftd t0 k g1) t0).
    + rewrite !pev_shiftd_t0. f_equal. field. split; [exact Hnz|apply INR_S_neq0].
    + rewrite pev_shiftd_t0. apply Rmult_integral_contrapositive_currified;
        [apply INR_S_neq0|exact Hnz].
    + apply pderiv_factor, Hf.
    + apply pderiv_factor, Hg.
    + lia.
Qed.

(* (T2) that value is the limit of f/g at t0 *)
Theorem rational_limit_is_lim : forall (k : nat) (f1 g1 : list R) (t0 : R),
  pev g1 t0 <> 0 ->
  forall f g : list R,
  (forall x, pev f x = (x - t0) ^ k * pev f1 x) ->
  (forall x, pev g x = (x - t0) ^ k * pev g1 x) ->
  is_lim (fun x => pev f x / pev g x) t0 (pev f1 t0 / pev g1 t0).
Proof.
  intros k f1 g1 t0 Hnz f g Hf Hg.
  apply is_lim_ext_loc with (f := fun x => pev f1 x / pev g1 x).
  - exists (mkposreal 1 Rlt_0_1). intros y _ Hy.
    rewrite Hf, Hg. unfold Rdiv. rewrite Rinv_mult.
    assert (Hp : (y - t0) ^ k <> 0) by (apply pow_nonzero; lra).
    generalize (/ pev g1 y). intros r. field. exact Hp.
  - change (Finite (pev f1 t0 / pev g1 t0))
      with (Rbar_div (Finite (pev f1 t0)) (Finite (pev g1 t0))).
    apply is_lim_div.
    + apply is_lim_continuity, rl_peval_continuity.
    + apply is_lim_continuity, rl_peval_continuity.
    + intros E. apply Hnz. injection E. auto.
    + exact I.
Qed.

(* (T3) zero of f of order j < order k of the zero of g: ValueError *)
Theorem rational_limit_valueerror : forall (j k : nat) (f1 g1 : list R) (t0 : R),
  (j < k)%nat -> pev f1 t0 <> 0 -> pev g1 t0 <> 0 ->
  forall f g : list R,
  (forall x, pev f x = (x - t0) ^ j * pev f1 x) ->
  (forall x, pev g x = (x - t0) ^ k * pev g1 x) ->
  forall fuel, (j <= fuel)%nat ->
  rational_limit NumR fuel f g t0 = RLvalueerror.
Proof.
  induction j as [|j IH]; intros k f1 g1 t0 Hjk Hfnz Hnz f g Hf Hg fuel Hfuel;
    (destruct k as [|k]; [lia|]).
  - rewrite rl_unfold, (@factor_not_all_zero t0 _ g g1 Hnz Hg).
    assert (Eg : pev g t0 = 0) by (rewrite Hg; simpl; ring).
    assert (Ef : pev f t0 = pev f1 t0) by (rewrite Hf; simpl; ring).
    rewrite Eg, Ef. rewrite (proj2 (Req_b_true 0 0) eq_refl). cbn [negb].
    rewrite (proj2 (Req_b_false _ _) Hfnz). reflexivity.
  - rewrite rl_unfold, (@factor_not_all_zero t0 _ g g1 Hnz Hg).
    assert (Eg : pev g t0 = 0) by (rewrite Hg; simpl; ring).
    assert (Ef : pev f t0 = 0) by (rewrite Hf; simpl; ring).
    rewrite Eg, Ef. rewrite (proj2 (Req_b_true 0 0) eq_refl). cbn [negb].
    destruct fuel as [|fuel]; [lia|].
    apply (IH k (shiftd t0 j f1) (shiftd t0 k g1) t0).
    + lia.
    + rewrite pev_shiftd_t0. apply Rmult_integral_contrapositive_currified;
        [apply INR_S_neq0|exact Hfnz].
    + rewrite pev_shiftd_t0. apply Rmult_integral_contrapositive_currified;
        [apply INR_S_neq0|exact Hnz].
    + apply pderiv_factor, Hf.
    + apply pderiv_factor, Hg.
    + lia.
Qed.

(* (T4) fuel >= length g is always enough *)
Theorem rational_limit_fuel : forall (fuel : nat) (f g : list R) (t0 : R),
  (length g <= fuel)%nat -> rational_limit NumR fuel f g t0 <> RLfuel.
Proof.
  induction fuel as [|fuel IH]; intros f g t0 Hlen; rewrite rl_unfold.
  - destruct g; [|cbn in Hlen; lia]. cbn. discriminate.
  - destruct (all_zero NumR g) eqn:Ez; [discriminate|].
    destruct (negb (Req_b (pev g t0) 0)); [discriminate|].
    destruct (Req_b (pev f t0) 0); [|discriminate].
    apply IH. rewrite rl_pderiv_length. lia.
Qed.

(* the two remaining outcomes, for completeness *)
Lemma rational_limit_assert fuel f g t0 :
  all_zero NumR g = true -> rational_limit NumR fuel f g t0 = RLassert.
Proof. intros H. rewrite rl_unfold, H. reflexivity. Qed.

Print Assumptions rational_limit_common_zero.
Print Assumptions rational_limit_is_lim.
Print Assumptions rational_limit_valueerror.
Print Assumptions rational_limit_fuel.

(* non-vacuity: (x^2 - 1)/(x - 1) at 1 (k = 1, f1 = x + 1, g1 = 1) -> 2;
   1/(x - 1) at 1 (j = 0 < k = 1) -> ValueError *)
Example rational_limit_ex1 : forall fuel, (1 <= fuel)%nat ->
  rational_limit NumR fuel [1; 0; -1] [1; -1] 1 = RLok (pev [1; 1] 1 / pev [1] 1).
Proof.
  intros fuel Hfuel.
  apply (@rational_limit_common_zero 1 [1; 1] [1] 1); [cbn; lra| | |exact Hfuel];
    intros x; cbn; ring.
Qed.
Example rational_limit_ex1_lim :
  is_lim (fun x => pev [1; 0; -1] x / pev [1; -1] x) 1 2.
Proof.
  replace 2 with (pev [1; 1] 1 / pev [1] 1) by (cbn; field).
  apply (@rational_limit_is_lim 1 [1; 1] [1] 1); [cbn; lra| |]; intros x; cbn; ring.
Qed.
Example rational_limit_ex2 : forall fuel,
  rational_limit NumR fuel [1] [1; -1] 1 = RLvalueerror.
Proof.
  intros fuel.
  apply (@rational_limit_valueerror 0 1 [1] [1] 1); [lia|cbn; lra|cbn; lra| | |lia];
    intros x; cbn; ring.
Qed.
