(* Proofs/PathCacheRefute.v — the faithful model of the pinned code violates
   C16: closed witnesses (symbolic instance, vm_compute), one per defect class,
   each a history of <= 3 events, with the flags at fx_pinned; next to each, the
   same history under the corresponding repair flag, where the answers agree. *)
From Coq Require Import ZArith QArith Qcanon List Bool.
From SVP Require Import Base.Num Model.PathCache Model.PathCacheExec Proofs.PathCache.
Import ListNotations.
Import Sym.

Definition L1 : Seg := line (0, 0)%Z (1, 1)%Z.
Definition L2 : Seg := line (1, 1)%Z (0, 0)%Z.
Definition C1 : Seg := cubic (1, 1)%Z (2, 3)%Z (4, -1)%Z (5, 0)%Z.
Definition A1 : Seg := arc (5, 0)%Z (2, 1)%Z 30 1 (7, 2)%Z.
Definition Q1 : Seg := quad (7, 2)%Z (8, 5)%Z (3, 3)%Z.
Definition loose : Tol := (qc 1 100, 5%Z).                  (* error = 1e-2, min_depth = 5 *)
Definition deep : Tol := (qc 1 1000000000000, 9%Z).         (* error = 1e-12, min_depth = 9 *)
Definition z9 : P := (9, 9)%Z.

(* single-repair variants *)
Definition fx_s : fixes := mkFx true false false false false false false.   (* setters *)
Definition fx_c : fixes := mkFx false true false false false false false.   (* _calc_lengths *)
Definition fx_q : fixes := mkFx false false true false false false false.   (* cubic reuse test *)
Definition fx_a : fixes := mkFx false false false true false false false.   (* arc cache key *)
Definition fx_h : fixes := mkFx false false false false true false false.   (* __hash__ *)
Definition fx_l : fixes := mkFx false false false false false true false.   (* slice assignment *)
Definition fx_r : fixes := mkFx false false false false false false true.   (* reversed() *)

(* after history evs from the Path of the segments l, query q is answered differently from a
   newly built Path of fresh segments with the current control data *)
Definition differs (fx : fixes) (l : list Seg) (evs : list Ev) (q : Q) : Prop :=
  ask fx (run fx (fresh l) evs) q <> ask fx (fresh_of (run fx (fresh l) evs)) q.
Definition agrees (fx : fixes) (l : list Seg) (evs : list Ev) (q : Q) : Prop :=
  ask fx (run fx (fresh l) evs) q = ask fx (fresh_of (run fx (fresh l) evs)) q.
(* ... and differently from a newly built Path of the same segment objects *)
Definition differs_same (fx : fixes) (l : list Seg) (evs : list Ev) (q : Q) : Prop :=
  ask fx (run fx (fresh l) evs) q <> ask fx (fresh_same (run fx (fresh l) evs)) q.
Definition agrees_same (fx : fixes) (l : list Seg) (evs : list Ev) (q : Q) : Prop :=
  ask fx (run fx (fresh l) evs) q = ask fx (fresh_same (run fx (fresh l) evs)) q.

Ltac refute := unfold differs, differs_same; vm_compute; let HH := fresh "HH" in intro HH; discriminate HH.
Ltac confirm := unfold agrees, agrees_same; vm_compute; reflexivity.

(* (a) the start / end setters keep _length / _lengths *)
Lemma start_setter_stale_length :
  differs_same fx_pinned [L1; C1] [EQ (QLength t_default); EOp (SetStart z9)] (QLength t_default).
Proof. refute. Qed.
Lemma end_setter_stale_length :
  differs_same fx_pinned [L1; C1] [EQ (QLength t_default); EOp (SetEnd z9)] (QLength t_default).
Proof. refute. Qed.
(* what is returned is the length of the OLD control data *)
Lemma start_setter_returns_old :
  ask fx_pinned (run fx_pinned (fresh [L1]) [EQ (QLength t_default); EOp (SetStart z9)]) (QLength t_default)
  = VNum (SAdd SZero (SLen (sd L1) t_default)).
Proof. vm_compute. reflexivity. Qed.
Lemma setters_repaired :
  agrees fx_s [L1; C1] [EQ (QLength t_default); EOp (SetStart z9)] (QLength t_default)
  /\ agrees fx_s [L1; C1] [EQ (QLength t_default); EOp (SetEnd z9)] (QLength t_default).
Proof. split; confirm. Qed.

(* (b) _calc_lengths returns whatever is cached, for whatever tolerance *)
Lemma calc_lengths_ignores_tolerance :
  differs fx_pinned [L1; C1] [EQ (QLength loose)] (QLength t_default).
Proof. refute. Qed.
Lemma calc_lengths_ignores_tolerance_tight_first :
  differs_same fx_pinned [L1; C1] [EQ (QLength t_default)] (QLength loose).
Proof. refute. Qed.
(* repaired _calc_lengths: the path recomputes; what a cubic then answers is the cubic's business *)
Lemma calc_lengths_repaired :
  agrees_same fx_c [L1; C1] [EQ (QLength t_default)] (QLength loose)
  /\ agrees fx_c [L1; Q1] [EQ (QLength loose)] (QLength t_default).
Proof. split; confirm. Qed.

(* (c) CubicBezier: a value computed with a loose error is reused for a tighter
   request (the `>=` is the wrong way round); visible through a Path once the
   path-level cache has been reset by any mutation.  A Path of the same segment
   objects gives the same stale answer: the defect sits in the segment. *)
Lemma cubic_cache_error_test_inverted_seg :
  snd (seg_length fx_pinned (fst (seg_length fx_pinned C1 loose)) t_default) = SLen (sd C1) loose.
Proof. vm_compute. reflexivity. Qed.
Lemma cubic_cache_error_test_inverted :
  differs fx_pinned [C1] [EQ (QLength loose); EOp (Append L1)] (QLength t_default).
Proof. refute. Qed.
Lemma cubic_cache_error_test_inverted_same :
  agrees_same fx_pinned [C1] [EQ (QLength loose); EOp (Append L1)] (QLength t_default).
Proof. confirm. Qed.
Lemma cubic_repaired :
  snd (seg_length fx_q (fst (seg_length fx_q C1 loose)) t_default) = SLen (sd C1) t_default
  /\ agrees fx_q [C1] [EQ (QLength loose); EOp (Append L1)] (QLength t_default).
Proof. split; [vm_compute; reflexivity|confirm]. Qed.
(* a deeper min_depth is reused as well: not what a fresh segment answers.  The
   repaired test keeps this, and also reuses a value computed with a tighter
   error: a MORE accurate value than asked for (left as a finding) *)
Lemma cubic_cache_deeper_min_depth_reused :
  snd (seg_length fx_pinned (fst (seg_length fx_pinned C1 deep)) t_default) = SLen (sd C1) deep.
Proof. vm_compute. reflexivity. Qed.
Lemma cubic_repaired_reuses_stricter :
  snd (seg_length fx_q (fst (seg_length fx_q C1 deep)) t_default) = SLen (sd C1) deep
  /\ snd (seg_length fx_q (fst (seg_length fx_q C1 t_default)) loose) = SLen (sd C1) t_default.
Proof. vm_compute. split; reflexivity. Qed.
(* the tight-then-loose direction recomputes, as a fresh segment would *)
Lemma cubic_tight_then_loose_recomputes :
  snd (seg_length fx_pinned (fst (seg_length fx_pinned C1 t_default)) loose) = SLen (sd C1) loose.
Proof. vm_compute. reflexivity. Qed.

(* Arc: the cache is keyed by hash(self) alone *)
Lemma arc_cache_ignores_tolerance_seg :
  snd (seg_length fx_pinned (fst (seg_length fx_pinned A1 loose)) t_default) = SLen (sd A1) loose
  /\ snd (seg_length fx_pinned (fst (seg_length fx_pinned A1 t_default)) loose) = SLen (sd A1) t_default.
Proof. vm_compute. split; reflexivity. Qed.
Lemma arc_cache_ignores_tolerance :
  differs fx_pinned [A1] [EQ (QLength loose); EOp (Append L1)] (QLength t_default).
Proof. refute. Qed.
Lemma arc_repaired :
  (snd (seg_length fx_a (fst (seg_length fx_a A1 loose)) t_default) = SLen (sd A1) t_default
   /\ snd (seg_length fx_a (fst (seg_length fx_a A1 t_default)) loose) = SLen (sd A1) loose)
  /\ agrees fx_a [A1] [EQ (QLength loose); EOp (Append L1)] (QLength t_default).
Proof. split; [vm_compute; split; reflexivity|confirm]. Qed.

(* (d) `path[:] = []` : the list is emptied, _length reset, then IndexError;
   _start/_end keep describing segments that are gone *)
Lemma slice_assign_empty_raises :
  snd (step fx_pinned (fresh [L1; C1]) (SetSlice None None [])) = RErr IndexError
  /\ segs (fst (step fx_pinned (fresh [L1; C1]) (SetSlice None None []))) = []
  /\ differs fx_pinned [L1; C1] [EOp (SetSlice None None [])] QEnd.
Proof. split; [|split]; [vm_compute; reflexivity|vm_compute; reflexivity|refute]. Qed.
Lemma slice_assign_repaired :
  snd (step fx_l (fresh [L1; C1]) (SetSlice None None [])) = ROk
  /\ agrees fx_l [L1; C1] [EOp (SetSlice None None [])] QEnd.
Proof. split; [vm_compute; reflexivity|confirm]. Qed.
(* the same statement written `del path[:]` is fine *)
Lemma del_slice_all_ok :
  snd (step fx_pinned (fresh [L1; C1]) (DelSlice None None)) = ROk
  /\ ask fx_pinned (run fx_pinned (fresh [L1; C1]) [EOp (DelSlice None None)]) QEnd = VPt None.
Proof. vm_compute. split; reflexivity. Qed.

(* a setter applied to an empty path leaves a start that a fresh empty Path has
   not (not repaired: true of every variant) *)
Lemma setter_on_empty_path : differs fx_pinned [] [EOp (SetStart z9)] QStart /\ differs fx_all [] [EOp (SetStart z9)] QStart.
Proof. split; refute. Qed.

(* (e) Path.__eq__ ignores _closed, Path.__hash__ includes it:
   Path(Line(0,1+1j), Line(1+1j,0)) == parse_path('M0,0 L1,1 Z') *)
Lemma path_eq_hash_closed :
  let a := fresh [L1; L2] in
  let b := fresh_closed [L1; L2] true in
  ask fx_pinned a (QEq (sds b)) = VBool true /\ ask fx_pinned a QHash <> ask fx_pinned b QHash.
Proof. simpl. split; [vm_compute; reflexivity|vm_compute; intro H; discriminate H]. Qed.
Lemma path_eq_hash_repaired_witness :
  ask fx_h (fresh [L1; L2]) QHash = ask fx_h (fresh_closed [L1; L2] true) QHash.
Proof. vm_compute. reflexivity. Qed.

(* reversed(): the copy starts with the original's value under its own key
   (kept by the repair: the ulp-level finding) *)
Definition reversed (fx : fixes) : Seg -> Seg * Seg := seg_reversed fx P_eqb Pay_eqb rev_data sym_truthy.
Lemma reversed_copy_inherits_cache :
  let g := fst (seg_length fx_pinned C1 t_default) in
  snd (seg_length fx_pinned (snd (reversed fx_pinned g)) t_default) = SLen (sd C1) t_default
  /\ snd (seg_length fx_pinned (clear_cache (snd (reversed fx_pinned g))) t_default) = SLen (rev_data (sd C1)) t_default.
Proof. vm_compute. split; reflexivity. Qed.
Lemma reversed_copy_inherits_cache_still :
  let g := fst (seg_length fx_r C1 t_default) in
  snd (seg_length fx_r (snd (reversed fx_r g)) t_default) = SLen (sd C1) t_default.
Proof. vm_compute. reflexivity. Qed.
(* ... whereas the original, whose shared entry has been re-keyed, recomputes *)
Lemma reversed_original_recomputes :
  let g := fst (seg_length fx_pinned C1 t_default) in
  snd (seg_length fx_pinned (fst (reversed fx_pinned g)) t_default) = SLen (sd C1) t_default
  /\ option_map (@ckey _ _ _ _) (scache (fst (reversed fx_pinned g))) = Some (rev_data (sd C1)).
Proof. vm_compute. split; reflexivity. Qed.

(* c.length(); c.start = z; r = c.reversed(); r.length(): the shared entry is
   re-keyed to the CURRENT reversed control points while still holding the
   length of the OLD ones, so the copy answers with a genuinely stale value *)
Lemma reversed_rekeys_stale_length :
  let g := with_start (fst (seg_length fx_pinned C1 t_default)) z9 in
  snd (seg_length fx_pinned (snd (reversed fx_pinned g)) t_default) = SLen (sd C1) t_default
  /\ snd (seg_length fx_pinned (clear_cache (snd (reversed fx_pinned g))) t_default) = SLen (rev_data (sd g)) t_default
  /\ sd g <> sd C1.
Proof. vm_compute. split; [reflexivity|split; [reflexivity|intro HH; discriminate HH]]. Qed.
Lemma reversed_repaired :
  let g := with_start (fst (seg_length fx_r C1 t_default)) z9 in
  snd (seg_length fx_r (snd (reversed fx_r g)) t_default) = SLen (rev_data (sd g)) t_default
  /\ fst (reversed fx_r g) = g.
Proof. vm_compute. split; reflexivity. Qed.

(* non-vacuity of the positive theorems: a history with every kind of
   operation that is safe, on which the invariant therefore holds *)
Definition demo : list Ev :=
  [ EQ (QLength t_default); EOp (Append Q1); EQ QStart; EOp (Insert (-1) A1); EOp Reverse;
    EQ (QLength t_default); EOp (Pop (-1)); EOp (SetItem 0 L2); EOp (DelItem 1);
    EOp (SetStart z9); EQ (QLength t_default); EOp (Extend [L1; C1]); EOp (SetSlice (Some 1%Z) None [Q1]);
    EOp (DelSlice (Some 0%Z) (Some 1%Z)); EQ QEnd ].
Lemma demo_safe :
  safe_hist fx_pinned P_eqb P_falsy Pay_eqb (tol_reuse fx_pinned) tol_eqb t_default SLen SZero SOne SAdd SSub SDiv
            sym_eqb sym_geb (Tb_one tol_eqb t_default) (fresh [L1; C1]) demo = true.
Proof. vm_compute. reflexivity. Qed.
Lemma demo_trace_nontrivial :
  length (segs (run fx_pinned (fresh [L1; C1]) demo)) = 1%nat
  /\ ask fx_pinned (run fx_pinned (fresh [L1; C1]) demo) (QLength t_default)
     = ask fx_pinned (fresh_of (run fx_pinned (fresh [L1; C1]) demo)) (QLength t_default).
Proof. vm_compute. split; reflexivity. Qed.
(* with every repair on: setters while the length is cached, `path[:] = []`,
   three different tolerances — all allowed *)
Definition demo_all : list Ev :=
  [ EQ (QLength t_default); EOp (SetStart z9); EQ (QLength loose); EOp (SetEnd z9); EQ (QT2t (SLit (qc 1 3)));
    EOp (SetSlice None None []); EQ QEnd; EOp (Extend [L1; A1]); EQ (QLength deep); EOp (SetStart z9);
    EQ (QLength loose) ].
Lemma demo_all_safe :
  safe_hist_repaired fx_all P_eqb P_falsy Pay_eqb (tol_reuse fx_all) tol_eqb t_default SLen SZero SOne SAdd SSub SDiv
            sym_eqb sym_geb Tb_any (fresh [L1; Q1]) demo_all = true.
Proof. vm_compute. reflexivity. Qed.
(* the same with a cubic in the path and an exact reuse test (cached == requested),
   for which the reuse hypothesis of the mixed-tolerance theorem holds *)
Definition demo_all_c : list Ev := demo_all ++ [EOp (Append C1); EQ (QLength loose); EQ (QLength deep)].
Lemma demo_all_c_safe :
  safe_hist_repaired fx_all P_eqb P_falsy Pay_eqb tol_eqb tol_eqb t_default SLen SZero SOne SAdd SSub SDiv
            sym_eqb sym_geb Tb_any (fresh [L1; C1]) demo_all_c = true.
Proof. vm_compute. reflexivity. Qed.

(* MutableSequence.reverse, modelled as the swap loop, reverses *)
Lemma reverse_is_rev :
  map sd (segs (fst (step fx_pinned (fresh [L1; C1; A1; Q1; L2]) Reverse))) = rev (map sd [L1; C1; A1; Q1; L2])
  /\ map sd (segs (fst (step fx_pinned (fresh [L1; C1; A1; Q1]) Reverse))) = rev (map sd [L1; C1; A1; Q1]).
Proof. vm_compute. split; reflexivity. Qed.
