(* Proofs/ArcR.v — the model of Arc._parameterize / point over the reals:
   unit vectors u1,u2, end points, on-ellipse, minimal scaling, flags. *)
From Coq Require Import ZArith List Bool Reals Lra Lia Psatz.
From SVP Require Import Base.Num Base.Cplx Model.Arc.
Import ListNotations.
Local Open Scope R_scope.

(* ------------------------------------------------------------------ *)
(* NumR computes to the usual operations *)
Lemma nabs_R x : nabs NumR x = Rabs x.
Proof.
  unfold nabs; cbn [ltb NumR zero opp]. unfold Rlt_b.
  destruct (Rlt_dec x 0).
  - rewrite Rabs_left; lra.
  - rewrite Rabs_right; lra.
Qed.
Lemma nmax_R x y : nmax NumR x y = Rmax x y.
Proof.
  unfold nmax; cbn [ltb NumR]. unfold Rlt_b, Rmax.
  destruct (Rlt_dec x y), (Rle_dec x y); lra.
Qed.
Lemma nmin_R x y : nmin NumR x y = Rmin x y.
Proof.
  unfold nmin; cbn [ltb NumR]. unfold Rlt_b, Rmin.
  destruct (Rlt_dec y x), (Rle_dec x y); lra.
Qed.
Lemma clip1_R_id x : -1 <= x <= 1 -> clip1 NumR x = x.
Proof.
  intros H. unfold clip1. rewrite nmin_R, nmax_R. cbn [opp one NumR].
  rewrite Rmax_left by lra. rewrite Rmin_left by lra. reflexivity.
Qed.
Lemma clip1_R_range x : -1 <= clip1 NumR x <= 1.
Proof.
  unfold clip1. rewrite nmin_R, nmax_R. cbn [opp one NumR].
  unfold Rmin, Rmax. repeat (match goal with |- context [Rle_dec ?a ?b] => destruct (Rle_dec a b) end); lra.
Qed.
Lemma two_R : two NumR = 2.  Proof. unfold two. now rewrite lit_R. Qed.
Lemma d180_R : d180 NumR = 180.  Proof. unfold d180. now rewrite lit_R. Qed.
Lemma d360_R : d360 NumR = 360.  Proof. unfold d360. now rewrite lit_R. Qed.

Lemma atol8_R_pos : 0 < atol8 NumR.
Proof.
  unfold atol8, dyadic. rewrite !lit_R. cbn [div NumR].
  apply Rdiv_lt_0_compat; [lra|].
  generalize (Pos.to_nat 78). intros n. induction n; cbn [npow one mul NumR]; lra.
Qed.

Lemma isclose0_R x : isclose0 NumR x = true <-> Rabs x <= atol8 NumR.
Proof. unfold isclose0. rewrite nabs_R. cbn [leb NumR]. apply Rle_b_true. Qed.

Lemma Rlt_b_t x y : x < y -> Rlt_b x y = true.  Proof. apply Rlt_b_true. Qed.
Lemma Rlt_b_f x y : y <= x -> Rlt_b x y = false.  Proof. apply Rlt_b_false. Qed.
Lemma Rle_b_t x y : x <= y -> Rle_b x y = true.  Proof. apply Rle_b_true. Qed.
Lemma Rle_b_f x y : y < x -> Rle_b x y = false.  Proof. apply Rle_b_false. Qed.

(* unfold the model down to R *)
Ltac rsimp :=
  do 3 cunfold;
  cbn [add sub mul div opp inv zero one ltb leb eqb NumR
       sqrt_ cos_ sin_ tan_ acos_ asin_ atan_ pi_ radians_ degrees_ NumTR fst snd] in *;
  rewrite ?two_R, ?d180_R, ?d360_R in *.

(* ------------------------------------------------------------------ *)
(* the angle whose cosine/sine are the coordinates of a unit vector, as the
   code computes it: sign(y) * acos x, with 0 / PI on the axis *)
Definition ang (x y : R) : R :=
  if Rlt_b 0 y then acos x else if Rlt_b y 0 then - acos x
  else if Rlt_b 0 x then 0 else PI.

Lemma sq_pos_nz a : a <> 0 -> 0 < a * a.
Proof. intros H. apply (Rsqr_pos_lt a H). Qed.
Lemma sq_nonneg a : 0 <= a * a.
Proof. apply (Rle_0_sqr a). Qed.

Lemma sq_sum_bound c d : c * c + d * d = 1 -> -1 <= c <= 1.
Proof. intros H. pose proof (sq_nonneg d). split; nra. Qed.

Lemma sqrt_sq_abs a : sqrt (a * a) = Rabs a.
Proof. replace (a * a) with (a²) by (unfold Rsqr; ring). apply sqrt_Rsqr_abs. Qed.

Lemma ang_cos_sin x y : x * x + y * y = 1 -> cos (ang x y) = x /\ sin (ang x y) = y.
Proof.
  intros H. assert (Hx : -1 <= x <= 1) by nra.
  assert (Hs : 1 - x² = y * y) by (unfold Rsqr; lra).
  unfold ang, Rlt_b.
  destruct (Rlt_dec 0 y) as [Hy|Hy].
  { split; [apply cos_acos; lra|]. rewrite sin_acos by lra. rewrite Hs, sqrt_sq_abs.
    apply Rabs_right; lra. }
  destruct (Rlt_dec y 0) as [Hy'|Hy'].
  { rewrite cos_neg, sin_neg. split; [apply cos_acos; lra|].
    rewrite sin_acos by lra. rewrite Hs, sqrt_sq_abs. rewrite Rabs_left; lra. }
  assert (y = 0) by lra. subst y.
  destruct (Rlt_dec 0 x) as [Hx0|Hx0].
  { rewrite cos_0, sin_0. split; nra. }
  rewrite cos_PI, sin_PI. split; nra.
Qed.

Lemma ang_range x y : - PI <= ang x y <= PI.
Proof.
  pose proof (acos_bound x). pose proof PI_RGT_0.
  unfold ang. destruct (Rlt_b 0 y); [lra|]. destruct (Rlt_b y 0); [lra|].
  destruct (Rlt_b 0 x); lra.
Qed.

(* degrees(.) then *pi/180 is the identity *)
Lemma deg_rad a : (a * 180 / PI) * PI / 180 = a.
Proof. pose proof PI_RGT_0. field. lra. Qed.

(* ------------------------------------------------------------------ *)
(* theta and delta0 in radians are [ang] *)
Lemma theta_ang u : arc_theta NumR NumTR u * PI / 180 = ang (fst u) (snd u).
Proof.
  pose proof PI_RGT_0 as Hpi.
  unfold arc_theta, ang. rsimp.
  destruct (Rlt_b 0 (snd u)); [apply deg_rad|].
  destruct (Rlt_b (snd u) 0); [field; lra|].
  destruct (Rlt_b 0 (fst u)); field.
Qed.

Lemma clip1_R_0 : clip1 NumR 0 = 0.
Proof. apply clip1_R_id; lra. Qed.

Lemma delta0_ang u1 u2 : -1 <= arc_dot NumR u1 u2 <= 1 ->
  arc_delta0 NumR NumTR u1 u2 * PI / 180 = ang (arc_dot NumR u1 u2) (arc_det NumR u1 u2).
Proof.
  intros Hd. pose proof PI_RGT_0 as Hpi.
  unfold arc_delta0, ang.
  change (zero NumR) with 0. rewrite clip1_R_0, (clip1_R_id _ Hd).
  cbn [add NumR ltb]. rewrite Rplus_0_r.
  set (d := arc_det NumR u1 u2). set (c := arc_dot NumR u1 u2).
  rsimp.
  destruct (Rlt_b 0 d); [apply deg_rad|].
  destruct (Rlt_b d 0); [field; lra|].
  destruct (Rlt_b 0 c); field.
Qed.

(* delta0 lies in [-180, 180] whatever the inputs *)
Lemma delta0_range u1 u2 : -180 <= arc_delta0 NumR NumTR u1 u2 <= 180.
Proof.
  pose proof PI_RGT_0 as Hpi.
  unfold arc_delta0.
  set (a := add NumR _ _). pose proof (acos_bound a) as Ha.
  rsimp.
  assert (H1 : 0 <= acos a * 180 / PI <= 180).
  { split.
    - apply Rmult_le_pos; [nra|]. apply Rlt_le, Rinv_0_lt_compat; lra.
    - apply Rmult_le_reg_r with PI; [lra|]. unfold Rdiv. rewrite Rmult_assoc, Rinv_l by lra. nra. }
  destruct (Rlt_b 0 _); [lra|]. destruct (Rlt_b _ 0); [lra|].
  destruct (Rlt_b 0 _); lra.
Qed.

(* rotating the unit vector u1 by the signed angle from u1 to u2 gives u2 *)
Lemma rotate_to a1 b1 a2 b2 :
  a1 * a1 + b1 * b1 = 1 -> a2 * a2 + b2 * b2 = 1 ->
  let c := a1 * a2 + b1 * b2 in let d := a1 * b2 - b1 * a2 in
  c * c + d * d = 1 /\
  cos (ang a1 b1 + ang c d) = a2 /\ sin (ang a1 b1 + ang c d) = b2.
Proof.
  intros H1 H2 c d.
  assert (Hcd : c * c + d * d = 1).
  { unfold c, d. transitivity ((a1 * a1 + b1 * b1) * (a2 * a2 + b2 * b2)); [ring|]. rewrite H1, H2. ring. }
  split; [exact Hcd|].
  destruct (ang_cos_sin _ _ H1) as [C1 S1]. destruct (ang_cos_sin _ _ Hcd) as [C2 S2].
  rewrite cos_plus, sin_plus, C1, S1, C2, S2. unfold c, d. split.
  - transitivity (a2 * (a1 * a1 + b1 * b1)); [ring|]. rewrite H1; ring.
  - transitivity (b2 * (a1 * a1 + b1 * b1)); [ring|]. rewrite H1; ring.
Qed.

(* the +-360 adjustment does not change cos / sin of the angle *)
Lemma adjust_cases large sweep d0 :
  arc_adjust NumR large sweep d0 = d0 \/ arc_adjust NumR large sweep d0 = d0 - 360
  \/ arc_adjust NumR large sweep d0 = d0 + 360.
Proof.
  unfold arc_adjust. rsimp.
  destruct (negb sweep && Rle_b 0 d0); [auto|]. destruct (large && Rle_b d0 0); auto.
Qed.

Lemma cos_sin_shift360 th d d' :
  d' = d \/ d' = d - 360 \/ d' = d + 360 ->
  cos ((th + 1 * d') * PI / 180) = cos (th * PI / 180 + d * PI / 180) /\
  sin ((th + 1 * d') * PI / 180) = sin (th * PI / 180 + d * PI / 180).
Proof.
  set (x := th * PI / 180 + d * PI / 180).
  intros [->|[->| ->]].
  - split; f_equal; unfold x; field.
  - replace ((th + 1 * (d - 360)) * PI / 180) with (x + - (2 * PI)) by (unfold x; field).
    rewrite cos_plus, sin_plus, cos_neg, sin_neg, cos_2PI, sin_2PI. split; ring.
  - replace ((th + 1 * (d + 360)) * PI / 180) with (x + 2 * PI) by (unfold x; field).
    rewrite cos_plus, sin_plus, cos_2PI, sin_2PI. split; ring.
Qed.

(* ------------------------------------------------------------------ *)
(* the algebraic core of F.6.5, for arbitrary positive radii (rx,ry) and a
   non-zero half-chord (x,y) in the rotated frame *)
Section Core.
  Variables rx ry x y : R.
  Hypothesis Hrx : 0 < rx.
  Hypothesis Hry : 0 < ry.
  Hypothesis Hxy : 0 < x * x + y * y.

  Let r : Cplx R := (rx, ry).
  Let z : Cplx R := (x, y).
  Definition tmpR := rx * rx * (y * y) + ry * ry * (x * x).

  Lemma tmpR_pos : 0 < tmpR.
  Proof. unfold tmpR. assert (0 < rx * rx) by nra. assert (0 < ry * ry) by nra.
    assert (0 <= x * x) by nra. assert (0 <= y * y) by nra.
    destruct (Req_dec x 0) as [->|Hx].
    - assert (0 < y * y) by nra. nra.
    - assert (0 < x * x) by nra. nra. Qed.

  Lemma rc_eq : arc_rc NumR r z = tmpR / (rx * rx * (ry * ry)).
  Proof. unfold arc_rc, r, z, tmpR. rsimp. field. split; lra. Qed.

  Lemma rc_pos : 0 < arc_rc NumR r z.
  Proof. rewrite rc_eq. apply Rdiv_lt_0_compat; [apply tmpR_pos|]. apply Rmult_lt_0_compat; nra. Qed.

  Lemma radicand_tmp : arc_radicand NumR r z = (rx * rx * (ry * ry) - tmpR) / tmpR.
  Proof. unfold arc_radicand, r, z, tmpR. rsimp. reflexivity. Qed.

  Lemma radicand_rc : arc_radicand NumR r z = (1 - arc_rc NumR r z) / arc_rc NumR r z.
  Proof.
    rewrite radicand_tmp, rc_eq. pose proof tmpR_pos. field. repeat split; lra.
  Qed.

  Lemma radicand_nonneg : arc_rc NumR r z <= 1 -> 0 <= arc_radicand NumR r z.
  Proof.
    intros H. rewrite radicand_rc. pose proof rc_pos.
    apply Rmult_le_pos; [lra|]. apply Rlt_le, Rinv_0_lt_compat; lra.
  Qed.
  Lemma radicand_zero_iff : arc_radicand NumR r z = 0 <-> arc_rc NumR r z = 1.
  Proof.
    rewrite radicand_rc. pose proof rc_pos as Hp. split; intros H.
    - apply (f_equal (fun v => v * arc_rc NumR r z)) in H.
      unfold Rdiv in H. rewrite Rmult_assoc, Rinv_l in H by lra. lra.
    - rewrite H. field.
  Qed.
  Lemma radicand_pos_iff : 0 < arc_radicand NumR r z <-> arc_rc NumR r z < 1.
  Proof.
    rewrite radicand_rc. pose proof rc_pos as Hp. split; intros H.
    - destruct (Rlt_dec (arc_rc NumR r z) 1); [assumption|exfalso].
      assert ((1 - arc_rc NumR r z) / arc_rc NumR r z <= 0); [|lra].
      unfold Rdiv. assert (0 < / arc_rc NumR r z) by (apply Rinv_0_lt_compat; lra). nra.
    - apply Rdiv_lt_0_compat; lra.
  Qed.

  (* u1, u2 before clipping, for a radical k and a sign choice *)
  Variable k : R.
  Variables large sweep : bool.
  Let cp := arc_cp NumR large sweep k r z.
  Let sg : R := if Bool.eqb large sweep then -1 else 1.

  Lemma u1_raw_eq : arc_u1_raw NumR r z cp = (x / rx - sg * k * (y / ry), y / ry + sg * k * (x / rx)).
  Proof.
    unfold arc_u1_raw, cp, arc_cp, r, z, sg. destruct (Bool.eqb large sweep); rsimp;
    apply cplx_eq; cbn [fst snd]; field; lra.
  Qed.
  Lemma u2_raw_eq : arc_u2_raw NumR r z cp = (- (x / rx) - sg * k * (y / ry), - (y / ry) + sg * k * (x / rx)).
  Proof.
    unfold arc_u2_raw, cp, arc_cp, r, z, sg. destruct (Bool.eqb large sweep); rsimp;
    apply cplx_eq; cbn [fst snd]; field; lra.
  Qed.
  Lemma sg_sq : sg * sg = 1.
  Proof. unfold sg. destruct (Bool.eqb large sweep); ring. Qed.

  Lemma ab_rc : (x / rx) * (x / rx) + (y / ry) * (y / ry) = arc_rc NumR r z.
  Proof. unfold arc_rc, r, z. rsimp. field; lra. Qed.

  (* |u1|^2 = |u2|^2 = (1 + k^2) * radius_check *)
  Lemma u1_norm : cnorm2 NumR (arc_u1_raw NumR r z cp) = (1 + k * k) * arc_rc NumR r z.
  Proof.
    rewrite u1_raw_eq, <- ab_rc. rsimp.
    transitivity ((1 + sg * sg * (k * k)) * (x / rx * (x / rx) + y / ry * (y / ry))); [ring|].
    rewrite sg_sq. ring.
  Qed.
  Lemma u2_norm : cnorm2 NumR (arc_u2_raw NumR r z cp) = (1 + k * k) * arc_rc NumR r z.
  Proof.
    rewrite u2_raw_eq, <- ab_rc. rsimp.
    transitivity ((1 + sg * sg * (k * k)) * (x / rx * (x / rx) + y / ry * (y / ry))); [ring|].
    rewrite sg_sq. ring.
  Qed.
  (* dot and det of the raw u1, u2 *)
  Lemma raw_dot : arc_dot NumR (arc_u1_raw NumR r z cp) (arc_u2_raw NumR r z cp)
                  = (k * k - 1) * arc_rc NumR r z.
  Proof.
    rewrite u1_raw_eq, u2_raw_eq, <- ab_rc. unfold arc_dot. rsimp.
    transitivity ((sg * sg * (k * k) - 1) * (x / rx * (x / rx) + y / ry * (y / ry))); [ring|].
    rewrite sg_sq. ring.
  Qed.
  Lemma raw_det : arc_det NumR (arc_u1_raw NumR r z cp) (arc_u2_raw NumR r z cp)
                  = 2 * sg * k * arc_rc NumR r z.
  Proof.
    rewrite u1_raw_eq, u2_raw_eq, <- ab_rc. unfold arc_det. rsimp. ring.
  Qed.

  (* when k^2 is the radicand: unit vectors *)
  Lemma one_plus_radicand : (1 + arc_radicand NumR r z) * arc_rc NumR r z = 1.
  Proof. rewrite radicand_rc. pose proof rc_pos. field. lra. Qed.

  Hypothesis Hk : k * k = arc_radicand NumR r z.
  Lemma u1_unit : cnorm2 NumR (arc_u1_raw NumR r z cp) = 1.
  Proof. rewrite u1_norm, Hk. apply one_plus_radicand. Qed.
  Lemma u2_unit : cnorm2 NumR (arc_u2_raw NumR r z cp) = 1.
  Proof. rewrite u2_norm, Hk. apply one_plus_radicand. Qed.
End Core.

(* ------------------------------------------------------------------ *)
(* from the constructor arguments to the core quantities *)
Lemma rc_scale rx ry x y s : rx <> 0 -> ry <> 0 -> s <> 0 ->
  arc_rc NumR (rx * s, ry * s) (x, y) = arc_rc NumR (rx, ry) (x, y) / (s * s).
Proof. intros. unfold arc_rc. rsimp. field; repeat split; assumption. Qed.

Lemma bool_cases (b : bool) : b = true \/ b = false.
Proof. destruct b; auto. Qed.

(* threshold of the radicand below which the radical is set to 0 *)
Definition snap_thr_of (fx : bool) : R := if fx then 0 else atol8 NumR.
Lemma snap_thr_of_ge0 fx : 0 <= snap_thr_of fx.
Proof. unfold snap_thr_of. pose proof atol8_R_pos. destruct fx; lra. Qed.

Section Param.
  Variables start radius end_ : Cplx R.
  Variable rotation : R.
  Variables large sweep : bool.
  (* variant of the radical rule: false = pinned code (np.isclose snap),
     true = repaired code (0 iff the radii were scaled or radicand <= 0) *)
  Variable fx : bool.
  Hypothesis Hse : start <> end_.
  Hypothesis Hrx0 : fst radius <> 0.
  Hypothesis Hry0 : snd radius <> 0.

  Let phi := arc_phi NumTR rotation.
  Let rotm := arc_rotm_of NumTR rotation.
  Let z := arc_zp1_of NumR NumTR start rotation end_.
  Let r0 := abs_radius NumR radius.
  Let rc0 := arc_rc_of NumR NumTR start radius rotation end_.
  Let rS := arc_radius_of NumR NumTR start radius rotation end_.
  Let radicand := arc_radicand_of NumR NumTR start radius rotation end_.
  Let radical := arc_radical_of NumR NumTR fx start radius rotation end_.
  Let cp := arc_cp_of NumR NumTR fx start radius rotation large sweep end_.
  Let u1 := arc_u1_of NumR NumTR fx start radius rotation large sweep end_.
  Let u2 := arc_u2_of NumR NumTR fx start radius rotation large sweep end_.
  Let P := arc_init_v NumR NumTR fx start radius rotation large sweep end_.

  Lemma rotm_eq : rotm = (cos phi, sin phi).
  Proof. reflexivity. Qed.
  Lemma rotm_unit : cos phi * cos phi + sin phi * sin phi = 1.
  Proof. pose proof (sin2_cos2 phi) as H. unfold Rsqr in H. lra. Qed.

  Lemma z_eq : z = (((cos phi * (fst start - fst end_) + sin phi * (snd start - snd end_)) / 2),
                    ((cos phi * (snd start - snd end_) - sin phi * (fst start - fst end_)) / 2)).
  Proof.
    unfold z, arc_zp1_of, arc_zp1, arc_rotm_of, arc_rotm. fold phi.
    pose proof rotm_unit as Hu.
    rsimp. apply cplx_eq; cbn [fst snd].
    - transitivity ((cos phi * (fst start - fst end_) + sin phi * (snd start - snd end_))
                    / (cos phi * cos phi + sin phi * sin phi) / 2); [field; lra|]. rewrite Hu. field.
    - transitivity ((cos phi * (snd start - snd end_) - sin phi * (fst start - fst end_))
                    / (cos phi * cos phi + sin phi * sin phi) / 2); [field; lra|]. rewrite Hu. field.
  Qed.

  (* rot_matrix * zp1 = (start - end)/2 *)
  Lemma rot_z : cos phi * fst z - sin phi * snd z = (fst start - fst end_) / 2
             /\ sin phi * fst z + cos phi * snd z = (snd start - snd end_) / 2.
  Proof.
    rewrite z_eq. cbn [fst snd]. pose proof rotm_unit as Hu. split.
    - transitivity ((cos phi * cos phi + sin phi * sin phi) * (fst start - fst end_) / 2); [field|].
      rewrite Hu. field.
    - transitivity ((cos phi * cos phi + sin phi * sin phi) * (snd start - snd end_) / 2); [field|].
      rewrite Hu. field.
  Qed.

  Lemma z_norm : fst z * fst z + snd z * snd z
                 = ((fst start - fst end_) * (fst start - fst end_)
                    + (snd start - snd end_) * (snd start - snd end_)) / 4.
  Proof.
    rewrite z_eq. cbn [fst snd]. pose proof rotm_unit as Hu.
    transitivity ((cos phi * cos phi + sin phi * sin phi) *
                  ((fst start - fst end_) * (fst start - fst end_)
                    + (snd start - snd end_) * (snd start - snd end_)) / 4); [field|].
    rewrite Hu. field.
  Qed.

  Lemma z_nonzero : 0 < fst z * fst z + snd z * snd z.
  Proof.
    rewrite z_norm.
    assert (fst start - fst end_ <> 0 \/ snd start - snd end_ <> 0) as [H|H].
    { destruct (Req_dec (fst start) (fst end_)) as [E1|E1]; [|left; lra].
      destruct (Req_dec (snd start) (snd end_)) as [E2|E2]; [|right; lra].
      exfalso. apply Hse. apply cplx_eq; assumption. }
    - pose proof (sq_pos_nz _ H). pose proof (sq_nonneg (snd start - snd end_)). lra.
    - pose proof (sq_pos_nz _ H). pose proof (sq_nonneg (fst start - fst end_)). lra.
  Qed.

  Lemma r0_eq : r0 = (Rabs (fst radius), Rabs (snd radius)).
  Proof. unfold r0, abs_radius. rsimp. now rewrite !nabs_R. Qed.
  Lemma r0_pos : 0 < fst r0 /\ 0 < snd r0.
  Proof. rewrite r0_eq. cbn [fst snd]. split; apply Rabs_pos_lt; assumption. Qed.

  Lemma rc0_eq : rc0 = arc_rc NumR (fst r0, snd r0) (fst z, snd z).
  Proof. unfold rc0, arc_rc_of. fold r0 z. now rewrite <- !surjective_pairing. Qed.
  Lemma rc0_pos : 0 < rc0.
  Proof. rewrite rc0_eq. destruct r0_pos. apply rc_pos; auto. apply z_nonzero. Qed.

  Lemma rS_cases : (1 < rc0 /\ rS = (fst r0 * sqrt rc0, snd r0 * sqrt rc0))
                \/ (rc0 <= 1 /\ rS = r0).
  Proof.
    unfold rS, arc_radius_of, arc_scaled_radius. fold r0 rc0. rsimp. unfold Rlt_b.
    destruct (Rlt_dec 1 rc0); [left|right]; split; auto; lra.
  Qed.
  Lemma rS_pos : 0 < fst rS /\ 0 < snd rS.
  Proof.
    destruct r0_pos as [A B].
    destruct rS_cases as [[H ->]|[H ->]]; [|split; assumption].
    assert (0 < sqrt rc0) by (apply sqrt_lt_R0; lra). cbn [fst snd]. split; nra.
  Qed.

  Let rcS := arc_rc NumR (fst rS, snd rS) (fst z, snd z).
  Lemma rcS_cases : (1 < rc0 /\ rcS = 1) \/ (rc0 <= 1 /\ rcS = rc0).
  Proof.
    destruct r0_pos as [A B].
    destruct rS_cases as [[H E]|[H E]]; [left|right]; split; auto; unfold rcS; rewrite E.
    - cbn [fst snd]. assert (0 < sqrt rc0) by (apply sqrt_lt_R0; lra).
      rewrite rc_scale by lra. rewrite sqrt_sqrt by lra. rewrite <- rc0_eq. field. lra.
    - now rewrite <- rc0_eq.
  Qed.
  Lemma rcS_le1 : 0 < rcS <= 1.
  Proof.
    split.
    - destruct rS_pos. apply rc_pos; auto. apply z_nonzero.
    - destruct rcS_cases as [[_ ->]|[H ->]]; lra.
  Qed.

  Lemma radicand_eq : radicand = arc_radicand NumR (fst rS, snd rS) (fst z, snd z).
  Proof. unfold radicand, arc_radicand_of. fold rS z. now rewrite <- !surjective_pairing. Qed.
  Lemma radicand_ge0 : 0 <= radicand.
  Proof. rewrite radicand_eq. destruct rS_pos. apply radicand_nonneg; auto.
    apply z_nonzero. apply rcS_le1. Qed.
  (* over the reals the radicand vanishes exactly when the radii were scaled
     or fit exactly *)
  Lemma radicand_scaled : 1 <= rc0 -> radicand = 0.
  Proof.
    intros H. rewrite radicand_eq. destruct rS_pos.
    apply radicand_zero_iff; auto. apply z_nonzero.
    fold rcS. destruct rcS_cases as [[_ ->]|[H' ->]]; lra.
  Qed.
  Lemma radicand_pos : rc0 < 1 -> 0 < radicand.
  Proof.
    intros H. rewrite radicand_eq. destruct rS_pos.
    apply radicand_pos_iff; auto. apply z_nonzero.
    fold rcS. destruct rcS_cases as [[? _]|[H' ->]]; lra.
  Qed.

  (* the threshold below which the radical is set to 0, and "the snap leaves the value
     unchanged": for the pinned code radicand = 0 or > 1e-8; always true for the repaired code *)
  Let snap_thr : R := snap_thr_of fx.
  Definition snap_inactive : Prop :=
    if fx then True else (isclose0 NumR radicand = true -> radicand = 0).
  Let fx_cases : fx = true \/ fx = false := bool_cases fx.
  Let snap_thr_ge0 : 0 <= snap_thr := snap_thr_of_ge0 fx.

  Lemma radical_cases : (radical = 0 /\ radicand <= snap_thr) \/ (radical = sqrt radicand /\ snap_thr < radicand).
  Proof.
    pose proof radicand_ge0 as Hr. pose proof atol8_R_pos as Ha.
    unfold radical, arc_radical_of, arc_radical, snap_thr, snap_thr_of. fold rc0 radicand.
    destruct fx_cases as [E|E]; rewrite E; clear E.
    - cbn [ltb leb NumR one zero]. unfold Rlt_b, Rle_b.
      destruct (Rlt_dec 1 rc0) as [Hs|Hs]; cbn [orb].
      + left. split; [reflexivity|]. rewrite radicand_scaled by lra. lra.
      + destruct (Rle_dec radicand 0); [left; split; [reflexivity|lra]|right; split; [reflexivity|lra]].
    - destruct (isclose0 NumR radicand) eqn:E.
      + left. split; [reflexivity|]. apply isclose0_R in E. rewrite Rabs_right in E by lra. exact E.
      + right. split; [reflexivity|].
        assert (~ Rabs radicand <= atol8 NumR) as Hn by (rewrite <- isclose0_R; congruence).
        rewrite Rabs_right in Hn by lra. lra.
  Qed.

  Lemma radical_sq : snap_inactive -> radical * radical = radicand.
  Proof.
    intros Hs. pose proof radicand_ge0 as Hr.
    destruct radical_cases as [[-> Hle]|[-> _]]; [|apply sqrt_sqrt; exact Hr].
    unfold snap_inactive, snap_thr, snap_thr_of in *. destruct fx_cases as [E|E]; rewrite E in *.
    - assert (radicand = 0) as -> by lra. ring.
    - rewrite Hs; [ring|]. apply isclose0_R. rewrite Rabs_right; lra.
  Qed.
  Lemma radical_ge0 : 0 <= radical.
  Proof. destruct radical_cases as [[-> _]|[-> _]]; [lra|apply sqrt_pos]. Qed.

  Lemma cp_eq : cp = arc_cp NumR large sweep radical (fst rS, snd rS) (fst z, snd z).
  Proof. unfold cp, arc_cp_of. fold radical rS z. now rewrite <- !surjective_pairing. Qed.

  Let u1r := arc_u1_raw NumR (fst rS, snd rS) (fst z, snd z) cp.
  Let u2r := arc_u2_raw NumR (fst rS, snd rS) (fst z, snd z) cp.
  Lemma u1_clip : u1 = cclip NumR u1r.
  Proof. unfold u1, arc_u1_of, u1r. fold rS z cp. now rewrite <- !surjective_pairing. Qed.
  Lemma u2_clip : u2 = cclip NumR u2r.
  Proof. unfold u2, arc_u2_of, u2r. fold rS z cp. now rewrite <- !surjective_pairing. Qed.

  (* |u|^2 <= 1 always (with or without the snap), so np.clip never acts *)
  Lemma radical_sq_le : radical * radical <= radicand.
  Proof.
    pose proof radicand_ge0 as Hr.
    destruct radical_cases as [[-> _]|[-> _]]; [lra|rewrite sqrt_sqrt; lra].
  Qed.
  Lemma u1r_norm_le : cnorm2 NumR u1r <= 1.
  Proof.
    unfold u1r. rewrite cp_eq. destruct rS_pos.
    rewrite u1_norm by (auto; apply z_nonzero). fold rcS.
    pose proof radical_sq_le as Hk. rewrite radicand_eq in Hk.
    pose proof (one_plus_radicand (fst rS) (snd rS) (fst z) (snd z) H H0 z_nonzero) as H1.
    fold rcS in H1. pose proof rcS_le1. nra.
  Qed.
  Lemma u2r_norm_le : cnorm2 NumR u2r <= 1.
  Proof.
    unfold u2r. rewrite cp_eq. destruct rS_pos.
    rewrite u2_norm by (auto; apply z_nonzero). fold rcS.
    pose proof radical_sq_le as Hk. rewrite radicand_eq in Hk.
    pose proof (one_plus_radicand (fst rS) (snd rS) (fst z) (snd z) H H0 z_nonzero) as H1.
    fold rcS in H1. pose proof rcS_le1. nra.
  Qed.
  Lemma cclip_id (u : Cplx R) : cnorm2 NumR u <= 1 -> cclip NumR u = u.
  Proof.
    destruct u as [a b]. unfold cclip. rsimp. intros H.
    apply cplx_eq; cbn [fst snd]; apply clip1_R_id; nra.
  Qed.
  Lemma u1_noclip : u1 = u1r.
  Proof. rewrite u1_clip. apply cclip_id, u1r_norm_le. Qed.
  Lemma u2_noclip : u2 = u2r.
  Proof. rewrite u2_clip. apply cclip_id, u2r_norm_le. Qed.

  (* ---- C04_unit ---- *)
  Lemma arc_unit : snap_inactive ->
    fst u1 * fst u1 + snd u1 * snd u1 = 1 /\ fst u2 * fst u2 + snd u2 * snd u2 = 1.
  Proof.
    intros Hs. rewrite u1_noclip, u2_noclip. destruct rS_pos.
    pose proof (radical_sq Hs) as Hk. rewrite radicand_eq in Hk.
    pose proof (u1_unit (fst rS) (snd rS) (fst z) (snd z) H H0 z_nonzero radical large sweep Hk) as U1.
    pose proof (u2_unit (fst rS) (snd rS) (fst z) (snd z) H H0 z_nonzero radical large sweep Hk) as U2.
    rewrite <- cp_eq in U1, U2. split; assumption.
  Qed.

  (* ---- end points ---- *)
  Let center := arc_center NumR rotm cp start end_.
  Lemma P_fields : a_radius P = rS /\ a_center P = center /\ a_theta P = arc_theta NumR NumTR u1
     /\ a_delta P = arc_adjust NumR large sweep (arc_delta0 NumR NumTR u1 u2)
     /\ a_rot P = (cos phi, sin phi) /\ a_start P = start /\ a_end P = end_ /\ a_rotation P = rotation.
  Proof. repeat split. Qed.

  Lemma arc_point_eq t :
    arc_point NumR NumTR P t =
    (fst rS * cos phi * cos ((a_theta P + t * a_delta P) * PI / 180)
       - snd rS * sin phi * sin ((a_theta P + t * a_delta P) * PI / 180) + fst center,
     fst rS * sin phi * cos ((a_theta P + t * a_delta P) * PI / 180)
       + snd rS * cos phi * sin ((a_theta P + t * a_delta P) * PI / 180) + snd center).
  Proof. unfold arc_point. rsimp. reflexivity. Qed.

  Lemma center_eq : center = (cos phi * fst cp - sin phi * snd cp + (fst start + fst end_) / 2,
                              cos phi * snd cp + sin phi * fst cp + (snd start + snd end_) / 2).
  Proof. unfold center, arc_center. rewrite rotm_eq. rsimp. reflexivity. Qed.

  Lemma u1r_scaled : fst rS * fst u1r = fst z - fst cp /\ snd rS * snd u1r = snd z - snd cp.
  Proof. destruct rS_pos. unfold u1r, arc_u1_raw. rsimp. split; field; lra. Qed.
  Lemma u2r_scaled : fst rS * fst u2r = - fst z - fst cp /\ snd rS * snd u2r = - snd z - snd cp.
  Proof. destruct rS_pos. unfold u2r, arc_u2_raw. rsimp. split; field; lra. Qed.

  Lemma arc_point0 : snap_inactive -> arc_point NumR NumTR P 0 = start.
  Proof.
    intros Hs. destruct (arc_unit Hs) as [U1 _].
    rewrite arc_point_eq.
    replace ((a_theta P + 0 * a_delta P) * PI / 180) with (a_theta P * PI / 180) by field.
    change (a_theta P) with (arc_theta NumR NumTR u1). rewrite theta_ang.
    destruct (ang_cos_sin _ _ U1) as [-> ->].
    rewrite u1_noclip. destruct u1r_scaled as [A B]. destruct rot_z as [R1 R2].
    rewrite center_eq. apply cplx_eq; cbn [fst snd].
    - transitivity (cos phi * (fst rS * fst u1r) - sin phi * (snd rS * snd u1r)
                    + (cos phi * fst cp - sin phi * snd cp + (fst start + fst end_) / 2)); [ring|].
      rewrite A, B.
      transitivity ((cos phi * fst z - sin phi * snd z) + (fst start + fst end_) / 2); [ring|].
      fold z in R1. rewrite R1. field.
    - transitivity (sin phi * (fst rS * fst u1r) + cos phi * (snd rS * snd u1r)
                    + (cos phi * snd cp + sin phi * fst cp + (snd start + snd end_) / 2)); [ring|].
      rewrite A, B.
      transitivity ((sin phi * fst z + cos phi * snd z) + (snd start + snd end_) / 2); [ring|].
      fold z in R2. rewrite R2. field.
  Qed.

  Lemma dot_range : snap_inactive -> -1 <= arc_dot NumR u1 u2 <= 1.
  Proof.
    intros Hs. destruct (arc_unit Hs) as [U1 U2].
    destruct (rotate_to _ _ _ _ U1 U2) as [H _]. unfold arc_dot. rsimp. exact (sq_sum_bound _ _ H).
  Qed.

  Lemma arc_point1 : snap_inactive -> arc_point NumR NumTR P 1 = end_.
  Proof.
    intros Hs. destruct (arc_unit Hs) as [U1 U2].
    rewrite arc_point_eq.
    destruct (cos_sin_shift360 (a_theta P) (arc_delta0 NumR NumTR u1 u2) (a_delta P)) as [-> ->].
    { apply adjust_cases. }
    change (a_theta P) with (arc_theta NumR NumTR u1). rewrite theta_ang.
    rewrite delta0_ang by (apply dot_range; assumption).
    destruct (rotate_to _ _ _ _ U1 U2) as [_ [C S]].
    unfold arc_dot, arc_det. rsimp. rewrite C, S.
    rewrite u2_noclip. destruct u2r_scaled as [A B]. destruct rot_z as [R1 R2].
    rewrite center_eq. apply cplx_eq; cbn [fst snd].
    - transitivity (cos phi * (fst rS * fst u2r) - sin phi * (snd rS * snd u2r)
                    + (cos phi * fst cp - sin phi * snd cp + (fst start + fst end_) / 2)); [ring|].
      rewrite A, B.
      transitivity (- (cos phi * fst z - sin phi * snd z) + (fst start + fst end_) / 2); [ring|].
      fold z in R1. rewrite R1. field.
    - transitivity (sin phi * (fst rS * fst u2r) + cos phi * (snd rS * snd u2r)
                    + (cos phi * snd cp + sin phi * fst cp + (snd start + snd end_) / 2)); [ring|].
      rewrite A, B.
      transitivity (- (sin phi * fst z + cos phi * snd z) + (snd start + snd end_) / 2); [ring|].
      fold z in R2. rewrite R2. field.
  Qed.

  (* ---- the snapped region: point(0) = start forces the snap to be inactive ---- *)
  Lemma start_as_u1 :
    start = (fst rS * cos phi * fst u1r - snd rS * sin phi * snd u1r + fst center,
             fst rS * sin phi * fst u1r + snd rS * cos phi * snd u1r + snd center).
  Proof.
    destruct u1r_scaled as [A B]. destruct rot_z as [R1 R2]. fold z in R1, R2.
    rewrite center_eq. apply cplx_eq; cbn [fst snd].
    - transitivity (cos phi * (fst rS * fst u1r) - sin phi * (snd rS * snd u1r)
                    + (cos phi * fst cp - sin phi * snd cp + (fst start + fst end_) / 2)); [|ring].
      rewrite A, B.
      transitivity ((cos phi * fst z - sin phi * snd z) + (fst start + fst end_) / 2); [|ring].
      rewrite R1. field.
    - transitivity (sin phi * (fst rS * fst u1r) + cos phi * (snd rS * snd u1r)
                    + (cos phi * snd cp + sin phi * fst cp + (snd start + snd end_) / 2)); [|ring].
      rewrite A, B.
      transitivity ((sin phi * fst z + cos phi * snd z) + (snd start + snd end_) / 2); [|ring].
      rewrite R2. field.
  Qed.

  Lemma arc_point_fst t : fst (arc_point NumR NumTR P t) =
    fst rS * cos phi * cos ((a_theta P + t * a_delta P) * PI / 180)
       - snd rS * sin phi * sin ((a_theta P + t * a_delta P) * PI / 180) + fst center.
  Proof. rewrite arc_point_eq. reflexivity. Qed.
  Lemma arc_point_snd t : snd (arc_point NumR NumTR P t) =
    fst rS * sin phi * cos ((a_theta P + t * a_delta P) * PI / 180)
       + snd rS * cos phi * sin ((a_theta P + t * a_delta P) * PI / 180) + snd center.
  Proof. rewrite arc_point_eq. reflexivity. Qed.
  Lemma start_fst : fst start = fst rS * cos phi * fst u1r - snd rS * sin phi * snd u1r + fst center.
  Proof. pose proof start_as_u1 as H. apply (f_equal fst) in H. exact H. Qed.
  Lemma start_snd : snd start = fst rS * sin phi * fst u1r + snd rS * cos phi * snd u1r + snd center.
  Proof. pose proof start_as_u1 as H. apply (f_equal snd) in H. exact H. Qed.

  Lemma arc_point0_only_if : arc_point NumR NumTR P 0 = start -> snap_inactive.
  Proof.
    intros H. unfold snap_inactive. destruct fx_cases as [Efx|Efx]; rewrite Efx; [exact I|]. intros Hc.
    assert (Hk : radical = 0).
    { unfold radical, arc_radical_of, arc_radical. rewrite Efx. fold radicand. now rewrite Hc. }
    set (th := a_theta P * PI / 180).
    assert (H1 : fst rS * cos phi * cos th - snd rS * sin phi * sin th + fst center
                 = fst rS * cos phi * fst u1r - snd rS * sin phi * snd u1r + fst center).
    { transitivity (fst (arc_point NumR NumTR P 0)).
      - rewrite arc_point_fst.
        replace ((a_theta P + 0 * a_delta P) * PI / 180) with th by (unfold th; field). reflexivity.
      - rewrite H. apply start_fst. }
    assert (H2 : fst rS * sin phi * cos th + snd rS * cos phi * sin th + snd center
                 = fst rS * sin phi * fst u1r + snd rS * cos phi * snd u1r + snd center).
    { transitivity (snd (arc_point NumR NumTR P 0)).
      - rewrite arc_point_snd.
        replace ((a_theta P + 0 * a_delta P) * PI / 180) with th by (unfold th; field). reflexivity.
      - rewrite H. apply start_snd. }
    clear H.
    destruct rS_pos as [Px Py]. pose proof rotm_unit as Hu.
    set (D1 := fst rS * (cos th - fst u1r)). set (D2 := snd rS * (sin th - snd u1r)).
    assert (E1 : cos phi * D1 - sin phi * D2 = 0).
    { unfold D1, D2. apply Rminus_diag_eq in H1. rewrite <- H1. ring. }
    assert (E2 : sin phi * D1 + cos phi * D2 = 0).
    { unfold D1, D2. apply Rminus_diag_eq in H2. rewrite <- H2. ring. }
    assert (Z1 : D1 = 0).
    { transitivity ((cos phi * cos phi + sin phi * sin phi) * D1); [rewrite Hu; ring|].
      transitivity (cos phi * (cos phi * D1 - sin phi * D2) + sin phi * (sin phi * D1 + cos phi * D2)); [ring|].
      rewrite E1, E2. ring. }
    assert (Z2 : D2 = 0).
    { transitivity ((cos phi * cos phi + sin phi * sin phi) * D2); [rewrite Hu; ring|].
      transitivity (cos phi * (sin phi * D1 + cos phi * D2) - sin phi * (cos phi * D1 - sin phi * D2)); [ring|].
      rewrite E1, E2. ring. }
    assert (C : cos th = fst u1r).
    { unfold D1 in Z1. apply Rmult_integral in Z1. destruct Z1; lra. }
    assert (S : sin th = snd u1r).
    { unfold D2 in Z2. apply Rmult_integral in Z2. destruct Z2; lra. }
    assert (N1 : cnorm2 NumR u1r = 1).
    { rsimp. rewrite <- C, <- S. pose proof (sin2_cos2 th) as Hsc. unfold Rsqr in Hsc. lra. }
    unfold u1r in N1. rewrite cp_eq in N1.
    rewrite u1_norm in N1 by (auto using z_nonzero). rewrite Hk in N1.
    rewrite radicand_eq. apply radicand_zero_iff; auto using z_nonzero. lra.
  Qed.

  (* so inside the snapped region 0 < radicand <= 1e-8 the arc does not start at start *)
  Lemma arc_point0_snapped : fx = false ->
    0 < radicand <= atol8 NumR -> arc_point NumR NumTR P 0 <> start.
  Proof.
    intros Efx [A B] H. apply arc_point0_only_if in H. unfold snap_inactive in H. rewrite Efx in H.
    assert (radicand = 0); [|lra]. apply H. apply isclose0_R. rewrite Rabs_right; lra.
  Qed.

  (* ---- radii: minimal scaling ---- *)
  Lemma arc_scaled : 1 < rc0 ->
    a_radius P = (Rabs (fst radius) * sqrt rc0, Rabs (snd radius) * sqrt rc0) /\ radicand = 0.
  Proof.
    intros H. split; [|apply radicand_scaled; lra].
    change (a_radius P) with rS. destruct rS_cases as [[_ ->]|[H' _]]; [|lra].
    rewrite r0_eq. reflexivity.
  Qed.
  Lemma arc_unscaled : rc0 <= 1 -> a_radius P = (Rabs (fst radius), Rabs (snd radius)).
  Proof.
    intros H. change (a_radius P) with rS. destruct rS_cases as [[H' _]|[_ ->]]; [lra|]. apply r0_eq.
  Qed.

  (* no ellipse with the given rotation and radii lam*|rx|, lam*|ry| passes
     through both start and end unless lam^2 >= radius_check *)
  Lemma scale_necessary (Q : ArcP R) lam :
    a_rot Q = rotm -> 0 < lam ->
    a_radius Q = (lam * Rabs (fst radius), lam * Rabs (snd radius)) ->
    cnorm2 NumR (arc_u1transform NumR Q start) = 1 ->
    cnorm2 NumR (arc_u1transform NumR Q end_) = 1 ->
    rc0 <= lam * lam.
  Proof.
    intros Hrot Hlam Hrad H1 H2.
    destruct r0_pos as [A B]. rewrite r0_eq in A, B. cbn [fst snd] in A, B.
    rewrite rc0_eq. rewrite r0_eq. cbn [fst snd].
    unfold arc_u1transform, arc_centeriso in H1, H2. rewrite Hrot, Hrad, rotm_eq in H1, H2.
    pose proof rotm_unit as Hu.
    rsimp. rewrite Hu in H1, H2.
    set (cx := fst (a_center Q)) in *. set (cy := snd (a_center Q)) in *.
    set (c := cos phi) in *. set (sn := sin phi) in *.
    set (Rx := lam * Rabs (fst radius)) in *. set (Ry := lam * Rabs (snd radius)) in *.
    assert (HRx : 0 < Rx) by (unfold Rx; nra). assert (HRy : 0 < Ry) by (unfold Ry; nra).
    set (a1 := ((1 * c - 0 * - sn) / 1 * (fst start - cx) - (1 * - sn + 0 * c) / 1 * (snd start - cy)) / Rx) in *.
    set (b1 := ((1 * c - 0 * - sn) / 1 * (snd start - cy) + (1 * - sn + 0 * c) / 1 * (fst start - cx)) / Ry) in *.
    set (a2 := ((1 * c - 0 * - sn) / 1 * (fst end_ - cx) - (1 * - sn + 0 * c) / 1 * (snd end_ - cy)) / Rx) in *.
    set (b2 := ((1 * c - 0 * - sn) / 1 * (snd end_ - cy) + (1 * - sn + 0 * c) / 1 * (fst end_ - cx)) / Ry) in *.
    rewrite z_eq. cbn [fst snd]. fold c sn.
    assert (Ea : (c * (fst start - fst end_) + sn * (snd start - snd end_)) / 2 = Rx * ((a1 - a2) / 2)).
    { unfold a1, a2. field. lra. }
    assert (Eb : (c * (snd start - snd end_) - sn * (fst start - fst end_)) / 2 = Ry * ((b1 - b2) / 2)).
    { unfold b1, b2. field. lra. }
    unfold arc_rc. rsimp. rewrite Ea, Eb.
    match goal with |- ?L <= _ =>
      replace L with (lam * lam * (((a1 - a2) / 2) * ((a1 - a2) / 2) + ((b1 - b2) / 2) * ((b1 - b2) / 2)))
        by (unfold Rx, Ry; field; split; lra) end.
    assert (((a1 - a2) / 2) * ((a1 - a2) / 2) + ((b1 - b2) / 2) * ((b1 - b2) / 2) <= 1).
      { pose proof (sq_nonneg (a1 + a2)). pose proof (sq_nonneg (b1 + b2)). nra. }
      assert (0 < lam * lam) by nra. nra.
  Qed.

  (* ---- flags ---- *)
  Let sg : R := if Bool.eqb large sweep then -1 else 1.
  Lemma det_eq : arc_det NumR u1 u2 = 2 * sg * radical * rcS.
  Proof. rewrite u1_noclip, u2_noclip. unfold u1r, u2r. rewrite cp_eq. destruct rS_pos.
    apply raw_det; auto using z_nonzero. Qed.
  Lemma dot_eq : arc_dot NumR u1 u2 = (radical * radical - 1) * rcS.
  Proof. rewrite u1_noclip, u2_noclip. unfold u1r, u2r. rewrite cp_eq. destruct rS_pos.
    apply raw_dot; auto using z_nonzero. Qed.

  Lemma radical_pos_sq : 0 < radical -> (1 + radical * radical) * rcS = 1.
  Proof.
    intros Hk. destruct rS_pos.
    pose proof (one_plus_radicand (fst rS) (snd rS) (fst z) (snd z) H H0 z_nonzero) as H1.
    fold rcS in H1. rewrite <- radicand_eq in H1.
    replace (radical * radical) with radicand; [exact H1|].
    destruct radical_cases as [[E _]|[E _]]; [lra|].
    rewrite E. symmetry. apply sqrt_sqrt. apply radicand_ge0.
  Qed.

  Lemma delta0_half : radical = 0 -> arc_delta0 NumR NumTR u1 u2 = 180.
  Proof.
    intros Hk. unfold arc_delta0. rewrite det_eq, dot_eq, Hk. pose proof rcS_le1.
    rsimp. rewrite (Rlt_b_f 0 (2 * sg * 0 * rcS)) by lra.
    rewrite (Rlt_b_f (2 * sg * 0 * rcS) 0) by lra.
    rewrite Rlt_b_f by nra. reflexivity.
  Qed.

  Lemma deg_range a : 0 < a < PI -> 0 < a * 180 / PI < 180.
  Proof.
    intros [A B]. pose proof PI_RGT_0. split.
    - apply Rdiv_lt_0_compat; nra.
    - apply Rmult_lt_reg_r with PI; [lra|]. unfold Rdiv. rewrite Rmult_assoc, Rinv_l by lra. nra.
  Qed.

  Lemma dot_strict : 0 < radical -> -1 < arc_dot NumR u1 u2 < 1.
  Proof.
    intros Hk. rewrite dot_eq. pose proof (radical_pos_sq Hk). pose proof rcS_le1.
    assert (0 < radical * radical * rcS) by (apply Rmult_lt_0_compat; nra). split; nra.
  Qed.

  Lemma delta0_signed : 0 < radical ->
    (large = sweep -> -180 < arc_delta0 NumR NumTR u1 u2 < 0) /\
    (large <> sweep -> 0 < arc_delta0 NumR NumTR u1 u2 < 180).
  Proof.
    intros Hk. pose proof (dot_strict Hk) as Hd. pose proof rcS_le1 as Hr.
    assert (Hkr : 0 < radical * rcS) by (apply Rmult_lt_0_compat; lra).
    unfold arc_delta0. change (zero NumR) with 0.
    rewrite clip1_R_0, clip1_R_id by lra. cbn [add NumR]. rewrite Rplus_0_r.
    pose proof (deg_range _ (acos_bound_lt _ Hd)) as Ha.
    rewrite det_eq. rsimp. split; intros Hls.
    - assert (sg = -1) as -> by (unfold sg; subst large; now rewrite eqb_reflx).
      rewrite (Rlt_b_f 0) by nra. rewrite Rlt_b_t by nra. lra.
    - assert (sg = 1) as ->.
      { unfold sg. destruct large, sweep; cbn; try reflexivity; exfalso; apply Hls; reflexivity. }
      rewrite Rlt_b_t by nra. lra.
  Qed.

  (* the final delta, by cases *)
  Lemma arc_delta_cases :
    (radical = 0 /\ a_delta P = if sweep then 180 else -180) \/
    (0 < radical /\
     ((large = true /\ sweep = true /\ 180 < a_delta P < 360) \/
      (large = false /\ sweep = false /\ -180 < a_delta P < 0) \/
      (large = false /\ sweep = true /\ 0 < a_delta P < 180) \/
      (large = true /\ sweep = false /\ -360 < a_delta P < -180))).
  Proof.
    change (a_delta P) with (arc_adjust NumR large sweep (arc_delta0 NumR NumTR u1 u2)).
    destruct (Rle_lt_or_eq_dec _ _ radical_ge0) as [Hk|Hk]; [right|left]; split; auto.
    - destruct (delta0_signed Hk) as [A B]. unfold arc_adjust. rsimp.
      destruct large, sweep; cbn [negb andb].
      + left. destruct (A eq_refl). rewrite Rle_b_t by lra. repeat split; lra.
      + right; right; right. assert (true <> false) as Hn by discriminate. destruct (B Hn).
        rewrite Rle_b_t by lra. repeat split; lra.
      + right; right; left. assert (false <> true) as Hn by discriminate. destruct (B Hn).
        repeat split; lra.
      + right; left. destruct (A eq_refl). rewrite Rle_b_f by lra. repeat split; lra.
    - rewrite delta0_half by auto. unfold arc_adjust. rsimp.
      destruct large, sweep; cbn [negb andb]; rewrite ?(Rle_b_t 0 180), ?(Rle_b_f 180 0) by lra; lra.
  Qed.

  Lemma arc_sweep_sign : a_delta P <> 0 /\ (0 < a_delta P <-> sweep = true).
  Proof.
    destruct arc_delta_cases as [[_ H]|[_ [H|[H|[H|H]]]]].
    - rewrite H. destruct sweep; split; try lra; split; intros; try lra; try reflexivity; discriminate.
    - destruct H as [_ [-> H]]. split; [lra|]. split; intros; [reflexivity|lra].
    - destruct H as [_ [-> H]]. split; [lra|]. split; intros; [lra|discriminate].
    - destruct H as [_ [-> H]]. split; [lra|]. split; intros; [reflexivity|lra].
    - destruct H as [_ [-> H]]. split; [lra|]. split; intros; [lra|discriminate].
  Qed.

  Lemma arc_large_flag : Rabs (a_delta P) <> 180 -> (180 < Rabs (a_delta P) <-> large = true).
  Proof.
    intros Hne.
    destruct arc_delta_cases as [[_ H]|[_ [H|[H|[H|H]]]]].
    - exfalso. apply Hne. rewrite H. destruct sweep; [rewrite Rabs_right|rewrite Rabs_left]; lra.
    - destruct H as [-> [_ H]]. rewrite Rabs_right by lra. split; intros; [reflexivity|lra].
    - destruct H as [-> [_ H]]. rewrite Rabs_left by lra. split; intros; [lra|discriminate].
    - destruct H as [-> [_ H]]. rewrite Rabs_right by lra. split; intros; [lra|discriminate].
    - destruct H as [-> [_ H]]. rewrite Rabs_left by lra. split; intros; [reflexivity|lra].
  Qed.

  (* what decides between the two: radical > 0 iff the radicand survives the snap *)
  Lemma radical_pos_iff : 0 < radical <-> snap_thr < radicand.
  Proof.
    pose proof snap_thr_ge0 as Ht.
    destruct radical_cases as [[E H]|[E H]]; rewrite E; split; intros; try lra.
    apply sqrt_lt_R0. lra.
  Qed.
  Lemma arc_large_strict : snap_thr < radicand -> (180 < Rabs (a_delta P) <-> large = true).
  Proof.
    intros H. apply radical_pos_iff in H. apply arc_large_flag.
    destruct arc_delta_cases as [[H0 _]|[_ [H1|[H1|[H1|H1]]]]]; [lra| | | |];
      destruct H1 as [_ [_ H1]]; unfold Rabs; destruct (Rcase_abs _); lra.
  Qed.
  Lemma arc_half_when_snapped : radicand <= snap_thr -> Rabs (a_delta P) = 180.
  Proof.
    intros H. destruct arc_delta_cases as [[_ ->]|[H0 _]].
    - destruct sweep; [rewrite Rabs_right|rewrite Rabs_left]; lra.
    - apply radical_pos_iff in H0. lra.
  Qed.

  (* in the snapped region the arc is the half ellipse about the chord midpoint:
     point(0) + point(1) = start + end, so point(1) misses end by as much as point(0)
     misses start *)
  Lemma radical_zero_cp : radical = 0 -> cp = (0, 0).
  Proof.
    intros Hk. rewrite cp_eq, Hk. unfold arc_cp. destruct (Bool.eqb large sweep); rsimp;
      apply cplx_eq; cbn [fst snd]; ring.
  Qed.
  Lemma cos_sin_pm_pi x d : d = 180 \/ d = -180 ->
    cos ((x + 1 * d) * PI / 180) = - cos (x * PI / 180) /\ sin ((x + 1 * d) * PI / 180) = - sin (x * PI / 180).
  Proof.
    intros [->| ->].
    - replace ((x + 1 * 180) * PI / 180) with (x * PI / 180 + PI) by field.
      rewrite neg_cos, neg_sin. split; reflexivity.
    - replace ((x + 1 * -180) * PI / 180) with (x * PI / 180 + - PI) by field.
      rewrite cos_plus, sin_plus, cos_neg, sin_neg, cos_PI, sin_PI. split; ring.
  Qed.
  Lemma snapped_symmetric : radical = 0 ->
    fst (arc_point NumR NumTR P 0) + fst (arc_point NumR NumTR P 1) = fst start + fst end_ /\
    snd (arc_point NumR NumTR P 0) + snd (arc_point NumR NumTR P 1) = snd start + snd end_.
  Proof.
    intros Hk.
    assert (Hd : a_delta P = 180 \/ a_delta P = -180).
    { destruct arc_delta_cases as [[_ H]|[H _]]; [|lra]. rewrite H. destruct sweep; auto. }
    rewrite !arc_point_fst, !arc_point_snd.
    destruct (cos_sin_pm_pi (a_theta P) (a_delta P) Hd) as [-> ->].
    replace ((a_theta P + 0 * a_delta P) * PI / 180) with (a_theta P * PI / 180) by field.
    rewrite center_eq, (radical_zero_cp Hk). cbn [fst snd]. split; field.
  Qed.
  Lemma arc_point1_snapped : fx = false ->
    0 < radicand <= atol8 NumR -> arc_point NumR NumTR P 1 <> end_.
  Proof.
    intros Efx H E. apply (arc_point0_snapped Efx H).
    assert (Hk : radical = 0).
    { destruct (Rle_lt_or_eq_dec _ _ radical_ge0) as [Hp|Hz]; [|auto].
      apply radical_pos_iff in Hp. unfold snap_thr, snap_thr_of in Hp. rewrite Efx in Hp. lra. }
    destruct (snapped_symmetric Hk) as [A B]. rewrite E in A, B.
    apply cplx_eq; lra.
  Qed.

  Lemma arc_delta_range : Rabs (a_delta P) <= 360.
  Proof.
    destruct arc_delta_cases as [[_ ->]|[_ [H|[H|[H|H]]]]].
    - destruct sweep; [rewrite Rabs_right|rewrite Rabs_left]; lra.
    - destruct H as [_ [_ H]]. rewrite Rabs_right; lra.
    - destruct H as [_ [_ H]]. rewrite Rabs_left; lra.
    - destruct H as [_ [_ H]]. rewrite Rabs_right; lra.
    - destruct H as [_ [_ H]]. rewrite Rabs_left; lra.
  Qed.

  (* the eccentric angle theta + t*delta is affine in t with slope delta: it
     moves strictly monotonically, upwards iff sweep *)
  Lemma arc_angle_monotone t1 t2 : t1 < t2 ->
    if sweep then a_theta P + t1 * a_delta P < a_theta P + t2 * a_delta P
    else a_theta P + t2 * a_delta P < a_theta P + t1 * a_delta P.
  Proof.
    intros Ht. destruct arc_sweep_sign as [Hne Hs]. destruct sweep.
    - assert (0 < a_delta P) by (apply Hs; reflexivity). nra.
    - assert (a_delta P < 0).
      { destruct (Rlt_dec (a_delta P) 0) as [?|Hn]; [assumption|].
        destruct (Req_dec (a_delta P) 0) as [?|Hz]; [contradiction|].
        assert (0 < a_delta P) as H by lra. apply Hs in H. discriminate. }
      nra.
  Qed.
End Param.

(* ------------------------------------------------------------------ *)
(* every point(t) lies on the ellipse with the STORED centre, radii and
   rotation: pure algebra + sin^2 + cos^2 = 1, for any stored values *)
Lemma on_ellipse_gen (Q : ArcP R) t :
  fst (a_rot Q) * fst (a_rot Q) + snd (a_rot Q) * snd (a_rot Q) = 1 ->
  fst (a_radius Q) <> 0 -> snd (a_radius Q) <> 0 ->
  arc_u1transform NumR Q (arc_point NumR NumTR Q t)
  = (cos ((a_theta Q + t * a_delta Q) * PI / 180), sin ((a_theta Q + t * a_delta Q) * PI / 180)).
Proof.
  intros Hu Hx Hy. unfold arc_u1transform, arc_centeriso, arc_point. rsimp.
  set (A := (a_theta Q + t * a_delta Q) * PI / 180).
  set (c := fst (a_rot Q)) in *. set (s := snd (a_rot Q)) in *.
  set (rx := fst (a_radius Q)) in *. set (ry := snd (a_radius Q)) in *.
  apply cplx_eq; cbn [fst snd].
  - transitivity ((c * c + s * s) * cos A / (c * c + s * s)); [field; split; lra|]. rewrite Hu. field.
  - transitivity ((c * c + s * s) * sin A / (c * c + s * s)); [field; split; lra|]. rewrite Hu. field.
Qed.

Lemma on_ellipse_init fx start radius rotation large sweep end_ t :
  start <> end_ -> fst radius <> 0 -> snd radius <> 0 ->
  let P := arc_init_v NumR NumTR fx start radius rotation large sweep end_ in
  cnorm2 NumR (arc_u1transform NumR P (arc_point NumR NumTR P t)) = 1.
Proof.
  intros Hse Hx Hy P.
  destruct (rS_pos start radius end_ rotation Hx Hy) as [A B].
  rewrite on_ellipse_gen.
  - rsimp. pose proof (sin2_cos2 ((a_theta P + t * a_delta P) * PI / 180)) as H.
    unfold Rsqr in H. lra.
  - apply (rotm_unit rotation).
  - change (a_radius P) with (arc_radius_of NumR NumTR start radius rotation end_). lra.
  - change (a_radius P) with (arc_radius_of NumR NumTR start radius rotation end_). lra.
Qed.

(* ------------------------------------------------------------------ *)
(* a concrete arc inside the snapped region (radicand = 2^-29 + 2^-60):
   Arc(start=0, radius=(1+2^-30)+1j, rotation=0, *, *, end=2) *)
Definition Sstart : Cplx R := (0, 0).
Definition Send : Cplx R := (2, 0).
Definition Srad : Cplx R := (1073741825 / 1073741824, 1).

Lemma atol8_R_val : atol8 NumR = 3022314549036573 / 302231454903657293676544.
Proof.
  unfold atol8, dyadic. rewrite !lit_R. cbn [div NumR]. f_equal.
  change (Pos.to_nat 78) with (78%nat). cbn [npow mul one NumR]. lra.
Qed.

Lemma S_radicand : arc_radicand_of NumR NumTR Sstart Srad 0 Send
                   = (1073741825 / 1073741824) * (1073741825 / 1073741824) - 1.
Proof.
  assert (Hz : arc_zp1_of NumR NumTR Sstart 0 Send = (-1, 0)).
  { rewrite z_eq. unfold arc_phi, Sstart, Send. rsimp. replace (0 * PI / 180) with 0 by field.
    rewrite cos_0, sin_0. apply cplx_eq; cbn [fst snd]; field. }
  assert (Hr0 : abs_radius NumR Srad = Srad).
  { rewrite r0_eq. unfold Srad. cbn [fst snd]. rewrite !Rabs_right by lra. reflexivity. }
  assert (Hrc : arc_rc_of NumR NumTR Sstart Srad 0 Send <= 1).
  { unfold arc_rc_of. rewrite Hz, Hr0. unfold arc_rc, Srad. rsimp. lra. }
  unfold arc_radicand_of, arc_radius_of, arc_scaled_radius. rewrite Hz, Hr0.
  cbn [ltb NumR one]. rewrite Rlt_b_f by exact Hrc.
  unfold arc_radicand, Srad. rsimp. field.
Qed.

Lemma S_snapped : 0 < arc_radicand_of NumR NumTR Sstart Srad 0 Send <= atol8 NumR.
Proof. rewrite S_radicand, atol8_R_val. lra. Qed.
Lemma S_adm : Sstart <> Send /\ fst Srad <> 0 /\ snd Srad <> 0.
Proof. unfold Sstart, Send, Srad. cbn [fst snd]. repeat split; try lra. intros H. inversion H. lra. Qed.
Lemma S_point0_ne large sweep :
  arc_point NumR NumTR (arc_init_v NumR NumTR false Sstart Srad 0 large sweep Send) 0 <> Sstart.
Proof. destruct S_adm as [A [B C]]. apply arc_point0_snapped; auto. apply S_snapped. Qed.
Lemma S_point1_ne large sweep :
  arc_point NumR NumTR (arc_init_v NumR NumTR false Sstart Srad 0 large sweep Send) 1 <> Send.
Proof. destruct S_adm as [A [B C]]. apply arc_point1_snapped; auto. apply S_snapped. Qed.
