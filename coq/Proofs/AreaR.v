(* Proofs/AreaR.v — the real-number part of C14:
   * seg_area is the Riemann integral of x(t) y'(t) over [0,1] (Coquelicot),
     and y' is the derivative of y;
   * sign of the area of counter-clockwise triangles / fan-positive polygons;
   * path_encloses_pt on polygons in general position is the even-odd rule. *)
From Coq Require Import ZArith List Bool Reals Lra Lia Psatz.
Set Warnings "-ambiguous-paths".
From Coquelicot Require Import Coquelicot.
From SVP Require Import Base.Num Base.Cplx Base.Poly Base.FieldTac Model.Bezier
     Proofs.BezierAlg Model.Area Proofs.AreaAlg.
Import ListNotations.
Open Scope R_scope.

Ltac r_norm := cbv -[Rplus Rminus Rmult Rdiv Ropp Rinv IZR is_derive ex_derive continuous].

(* ================= Green ================= *)
Definition seg_x (s : bseg R) (t : R) : R := re (seg_point NumR s t).
Definition seg_y (s : bseg R) (t : R) : R := im (seg_point NumR s t).
Definition seg_dy (s : bseg R) (t : R) : R := im (seg_deriv1 NumR s t).

(* derivative(t) really is the derivative of point(t) (imaginary part) *)
Lemma seg_dy_is_derive s t : is_derive (seg_y s) t (seg_dy s t).
Proof.
  destruct s; destruct_cplx; unfold seg_y, seg_dy; r_norm; auto_derive; auto; ring.
Qed.

Lemma green_is_RInt s :
  is_RInt (fun t => seg_x s t * seg_dy s t) 0 1 (seg_area NumR s).
Proof.
  unfold seg_area, poly_area.
  set (F := peval NumR (area_integral NumR (seg_poly NumR s))).
  change (sub NumR (F (one NumR)) (F (zero NumR))) with (minus (F 1) (F 0)).
  apply (is_RInt_derive F).
  - intros t _. unfold F, seg_x, seg_dy. destruct s; destruct_cplx; r_norm; auto_derive; auto; field.
  - intros t _. apply (@ex_derive_continuous R_AbsRing R_NormedModule).
    unfold seg_x, seg_dy. destruct s; destruct_cplx; r_norm; auto_derive; auto.
Qed.

Theorem green_RInt s : seg_area NumR s = RInt (fun t => seg_x s t * seg_dy s t) 0 1.
Proof. symmetry. apply is_RInt_unique. apply green_is_RInt. Qed.

(* the whole path: left fold of the integrals *)
Lemma area_RInt_from p a0 :
  fold_left (fun a s => add NumR a (seg_area NumR s)) p a0 =
  fold_left (fun a s => a + RInt (fun t => seg_x s t * seg_dy s t) 0 1) p a0.
Proof.
  revert a0. induction p as [|s p IH]; intros a0; cbn [fold_left]; [reflexivity|].
  rewrite IH. rewrite green_RInt. reflexivity.
Qed.
Theorem area_RInt p :
  area_without_arcs NumR p =
  fold_left (fun a s => a + RInt (fun t => seg_x s t * seg_dy s t) 0 1) p 0.
Proof. apply area_RInt_from. Qed.

(* ================= orientation => sign ================= *)
Lemma two_R : add NumR (one NumR) (one NumR) = 2.
Proof. cbn. ring. Qed.

Theorem ccw_triangle_positive a b c :
  0 < orient NumR a b c -> 0 < area_without_arcs NumR (polygon a [b; c]).
Proof.
  intros H. rewrite (triangle_area NumR NumR_ok). rewrite two_R.
  change (div NumR ?x ?y) with (x / y). lra.
Qed.

Lemma fan_sum_pos v0 pts : (2 <= length pts)%nat -> fan_positive NumR v0 pts -> 0 < fan_sum NumR v0 pts.
Proof.
  induction pts as [|a r IH]; cbn [length]; [lia|].
  destruct r as [|b r]; [cbn [length]; lia|]. intros _ [P F].
  rewrite (fan_sum_cons2 NumR). change (add NumR ?x ?y) with (x + y).
  apply Rlt_b_true in P. change (zero NumR) with 0 in P.
  destruct r as [|c r].
  - cbn [fan_sum]. change (zero NumR) with 0. lra.
  - assert (0 < fan_sum NumR v0 (b :: c :: r)) by (apply IH; [cbn [length]; lia|exact F]). lra.
Qed.

(* every polygon that is star-shaped counter-clockwise from its first vertex
   (in particular every convex counter-clockwise polygon) has positive area *)
Theorem ccw_fan_positive v0 vs :
  (2 <= length vs)%nat -> fan_positive NumR v0 vs -> 0 < area_without_arcs NumR (polygon v0 vs).
Proof.
  intros L F. rewrite (polygon_area_fan NumR NumR_ok). rewrite two_R.
  pose proof (fan_sum_pos v0 vs L F). change (div NumR ?x ?y) with (x / y). lra.
Qed.

(* ================= enclosure ================= *)
Section Enclose.
  Variable atol : R.
  Hypothesis atol_nonneg : 0 <= atol.

  (* general position of the probe Line(p0,p1) w.r.t. the edge Line(q0,q1) *)
  Definition gp_edge (p0 p1 : Cplx R) (e : Cplx R * Cplx R) : Prop :=
    let q0 := fst e in let q1 := snd e in
    orient NumR p0 p1 q0 <> 0 /\ orient NumR p0 p1 q1 <> 0     (* no vertex on the probe's line *)
    /\ orient NumR q0 q1 p0 <> 0 /\ orient NumR q0 q1 p1 <> 0  (* probe ends off the edge's line *)
    /\ (ll_denom NumR p0 p1 q0 q1 = 0 \/ atol < Rabs (ll_denom NumR p0 p1 q0 q1)).
        (* parallel, or not "close to parallel" for np.isclose *)

  Lemma frac01 x y : x <> 0 -> y <> 0 -> x <> y -> (0 <= x / (x - y) <= 1 <-> x * y < 0).
  Proof.
    intros Hx Hy Hxy. assert (D : x - y <> 0) by lra.
    assert (Q : 0 < (x - y) * (x - y)) by nra.
    set (t := x / (x - y)).
    assert (Ex : x = t * (x - y)) by (unfold t; field; exact D).
    assert (Ey : y = (t - 1) * (x - y)) by (unfold t; field; exact D).
    split.
    - intros [T0 T1].
      assert (x * y = t * (t - 1) * ((x - y) * (x - y))) by (unfold t; field; exact D).
      assert (t * (t - 1) <= 0) by nra.
      assert (x * y <= 0) by nra.
      destruct (Req_dec (x * y) 0) as [Z|Z]; [|lra].
      apply Rmult_integral in Z. tauto.
    - intros P.
      assert (T : t = x * (x - y) * / ((x - y) * (x - y))) by (unfold t; field; exact D).
      assert (T' : 1 - t = - (y * (x - y)) * / ((x - y) * (x - y))) by (unfold t; field; exact D).
      assert (I : 0 < / ((x - y) * (x - y))) by (apply Rinv_0_lt_compat; exact Q).
      assert (0 <= x * (x - y)) by nra.
      assert (0 <= - (y * (x - y))) by nra.
      assert (0 <= t) by (rewrite T; apply Rmult_le_pos; lra).
      assert (0 <= 1 - t) by (rewrite T'; apply Rmult_le_pos; lra).
      lra.
  Qed.

  (* the code's t1, t2 in terms of orientation determinants *)
  Lemma ll_denom_o p0 p1 q0 q1 :
    ll_denom NumR p0 p1 q0 q1 = orient NumR q0 q1 p1 - orient NumR q0 q1 p0.
  Proof. destruct p0, p1, q0, q1. unfold ll_denom, orient. cbn. ring. Qed.
  Lemma ll_denom_r p0 p1 q0 q1 :
    ll_denom NumR p0 p1 q0 q1 = orient NumR p0 p1 q0 - orient NumR p0 p1 q1.
  Proof. destruct p0, p1, q0, q1. unfold ll_denom, orient. cbn. ring. Qed.
  Lemma ll_t1_o p0 p1 q0 q1 : ll_denom NumR p0 p1 q0 q1 <> 0 ->
    ll_t1 NumR p0 p1 q0 q1 = orient NumR q0 q1 p0 / (orient NumR q0 q1 p0 - orient NumR q0 q1 p1).
  Proof.
    intros D. assert (D' := D). rewrite ll_denom_o in D'. unfold ll_t1. revert D.
    destruct p0, p1, q0, q1. unfold ll_denom, orient in *. cbn in *. intros D. field. lra.
  Qed.
  Lemma ll_t2_r p0 p1 q0 q1 : ll_denom NumR p0 p1 q0 q1 <> 0 ->
    ll_t2 NumR p0 p1 q0 q1 = orient NumR p0 p1 q0 / (orient NumR p0 p1 q0 - orient NumR p0 p1 q1).
  Proof.
    intros D. assert (D' := D). rewrite ll_denom_r in D'. unfold ll_t2. revert D.
    destruct p0, p1, q0, q1. unfold ll_denom, orient in *. cbn in *. intros D. field. lra.
  Qed.

  Lemma in01_spec t : in01 NumR t = true <-> 0 <= t <= 1.
  Proof.
    unfold in01. cbn [leb NumR zero one]. rewrite andb_true_iff, !Rle_b_true. tauto.
  Qed.

  Lemma crosses_spec p0 p1 q0 q1 :
    crosses NumR p0 p1 q0 q1 = true <->
    orient NumR p0 p1 q0 * orient NumR p0 p1 q1 < 0 /\ orient NumR q0 q1 p0 * orient NumR q0 q1 p1 < 0.
  Proof.
    unfold crosses. cbn [ltb NumR zero mul]. rewrite andb_true_iff, !Rlt_b_true. tauto.
  Qed.

  (* a proper crossing is never discarded by the bounding-box pre-test *)
  Lemma nmin_le_l x y : nmin NumR x y <= x.
  Proof. unfold nmin. cbn [ltb NumR]. destruct (Rlt_b y x) eqn:E; [apply Rlt_b_true in E|]; lra. Qed.
  Lemma nmin_le_r x y : nmin NumR x y <= y.
  Proof. unfold nmin. cbn [ltb NumR]. destruct (Rlt_b y x) eqn:E; [|apply Rlt_b_false in E]; lra. Qed.
  Lemma nmax_ge_l x y : x <= nmax NumR x y.
  Proof. unfold nmax. cbn [ltb NumR]. destruct (Rlt_b x y) eqn:E; [apply Rlt_b_true in E|]; lra. Qed.
  Lemma nmax_ge_r x y : y <= nmax NumR x y.
  Proof. unfold nmax. cbn [ltb NumR]. destruct (Rlt_b x y) eqn:E; [|apply Rlt_b_false in E]; lra. Qed.
  Lemma convex_between a b t : 0 <= t <= 1 ->
    nmin NumR a b <= a + t * (b - a) <= nmax NumR a b.
  Proof.
    intros T. pose proof (nmin_le_l a b). pose proof (nmin_le_r a b).
    pose proof (nmax_ge_l a b). pose proof (nmax_ge_r a b).
    destruct (Rle_dec a b); split; nra.
  Qed.

  Lemma meet_point p0 p1 q0 q1 : ll_denom NumR p0 p1 q0 q1 <> 0 ->
    re p0 + ll_t1 NumR p0 p1 q0 q1 * (re p1 - re p0) = re q0 + ll_t2 NumR p0 p1 q0 q1 * (re q1 - re q0)
    /\ im p0 + ll_t1 NumR p0 p1 q0 q1 * (im p1 - im p0) = im q0 + ll_t2 NumR p0 p1 q0 q1 * (im q1 - im q0).
  Proof.
    unfold ll_t1, ll_t2. destruct p0, p1, q0, q1. unfold ll_denom. cbn. intros D. split; field; exact D.
  Qed.

  Lemma bbox_ok p0 p1 q0 q1 : ll_denom NumR p0 p1 q0 q1 <> 0 ->
    0 <= ll_t1 NumR p0 p1 q0 q1 <= 1 -> 0 <= ll_t2 NumR p0 p1 q0 q1 <= 1 ->
    bbox_reject NumR p0 p1 q0 q1 = false.
  Proof.
    intros D T1 T2. destruct (meet_point p0 p1 q0 q1 D) as [MX MY].
    pose proof (convex_between (re p0) (re p1) _ T1) as [A1 A2].
    pose proof (convex_between (re q0) (re q1) _ T2) as [B1 B2].
    pose proof (convex_between (im p0) (im p1) _ T1) as [C1 C2].
    pose proof (convex_between (im q0) (im q1) _ T2) as [E1 E2].
    unfold bbox_reject. cbv zeta. cbn [fst snd ltb NumR].
    rewrite !orb_false_iff. repeat split; apply Rlt_b_false; lra.
  Qed.

  (* per edge: the code reports one intersection exactly for the proper crossings *)
  Lemma hits_edge p0 p1 e : gp_edge p0 p1 e ->
    length (line_line_hits NumR atol p0 p1 (fst e) (snd e)) =
    if crosses NumR p0 p1 (fst e) (snd e) then 1%nat else 0%nat.
  Proof.
    destruct e as [q0 q1]. cbn [fst snd]. intros (R0 & R1 & O0 & O1 & DD).
    cbn [fst snd] in *.
    set (D := ll_denom NumR p0 p1 q0 q1) in *.
    assert (T1 : D <> 0 -> (in01 NumR (ll_t1 NumR p0 p1 q0 q1) = true <->
                 orient NumR q0 q1 p0 * orient NumR q0 q1 p1 < 0)).
    { intros Dn. rewrite in01_spec, (ll_t1_o _ _ _ _ Dn). apply frac01; auto.
      unfold D in Dn. rewrite ll_denom_o in Dn. lra. }
    assert (T2 : D <> 0 -> (in01 NumR (ll_t2 NumR p0 p1 q0 q1) = true <->
                 orient NumR p0 p1 q0 * orient NumR p0 p1 q1 < 0)).
    { intros Dn. rewrite in01_spec, (ll_t2_r _ _ _ _ Dn). apply frac01; auto.
      unfold D in Dn. rewrite ll_denom_r in Dn. lra. }
    destruct (crosses NumR p0 p1 q0 q1) eqn:C.
    - apply crosses_spec in C. destruct C as [Cr Co].
      assert (Dn : D <> 0).
      { unfold D. rewrite ll_denom_o. intros Z.
        assert (orient NumR q0 q1 p1 = orient NumR q0 q1 p0) by lra. rewrite H in Co. nra. }
      destruct DD as [Z|Big]; [contradiction|].
      apply T1 in Co; auto. apply T2 in Cr; auto.
      unfold line_line_hits, line_line_intersect.
      rewrite (bbox_ok p0 p1 q0 q1 Dn); [|apply in01_spec; exact Co|apply in01_spec; exact Cr].
      assert (Q : ceqb NumR q1 q0 = false).
      { unfold ceqb. cbn [eqb NumR]. apply andb_false_iff.
        destruct (Req_b (re q1) (re q0)) eqn:E1; [|auto]. right.
        destruct (Req_b (im q1) (im q0)) eqn:E2; [|auto]. exfalso.
        apply Req_b_true in E1. apply Req_b_true in E2. apply O0.
        destruct q0, q1, p0. unfold orient. cbn in *. subst. ring. }
      assert (P : ceqb NumR p1 p0 = false).
      { unfold ceqb. cbn [eqb NumR]. apply andb_false_iff.
        destruct (Req_b (re p1) (re p0)) eqn:E1; [|auto]. right.
        destruct (Req_b (im p1) (im p0)) eqn:E2; [|auto]. exfalso.
        apply Req_b_true in E1. apply Req_b_true in E2. apply R0.
        destruct p0, p1, q0. unfold orient. cbn in *. subst. ring. }
      assert (S : ceqb NumR p0 q0 && ceqb NumR p1 q1 = false).
      { apply andb_false_iff. left. unfold ceqb. cbn [eqb NumR]. apply andb_false_iff.
        destruct (Req_b (re p0) (re q0)) eqn:E1; [|auto]. right.
        destruct (Req_b (im p0) (im q0)) eqn:E2; [|auto]. exfalso.
        apply Req_b_true in E1. apply Req_b_true in E2. apply R0.
        destruct p0, p1, q0. unfold orient. cbn in *. subst. ring. }
      rewrite Q, P, S. cbn [orb].
      assert (I : isclose0 NumR atol D = false).
      { unfold isclose0. cbn [leb NumR]. apply Rle_b_false.
        replace (nabs NumR D) with (Rabs D); [exact Big|].
        unfold nabs, Rabs. cbn [ltb NumR zero opp]. destruct (Rcase_abs D) as [L|G].
        - assert (E : Rlt_b D 0 = true) by (apply Rlt_b_true; exact L). rewrite E. reflexivity.
        - destruct (Rlt_b D 0) eqn:E; [apply Rlt_b_true in E; lra|reflexivity]. }
      fold D. rewrite I, Co, Cr. reflexivity.
    - unfold line_line_hits, line_line_intersect.
      destruct (bbox_reject NumR p0 p1 q0 q1); [reflexivity|].
      destruct (ceqb NumR q1 q0 || ceqb NumR p1 p0); [reflexivity|].
      destruct (ceqb NumR p0 q0 && ceqb NumR p1 q1); [reflexivity|].
      fold D. destruct (isclose0 NumR atol D) eqn:I; [reflexivity|].
      assert (Dn : D <> 0).
      { intros Z. rewrite Z in I. unfold isclose0, nabs in I. cbn [ltb leb NumR zero opp] in I.
        assert (E : Rlt_b 0 0 = false) by (apply Rlt_b_false; lra). rewrite E in I.
        apply Rle_b_false in I. lra. }
      pose proof (T1 Dn) as T1'. pose proof (T2 Dn) as T2'.
      destruct (in01 NumR (ll_t1 NumR p0 p1 q0 q1)) eqn:A; [|reflexivity].
      destruct (in01 NumR (ll_t2 NumR p0 p1 q0 q1)) eqn:B; [|reflexivity].
      exfalso.
      assert (crosses NumR p0 p1 q0 q1 = true)
        by (apply crosses_spec; split; [apply T2'; reflexivity|apply T1'; reflexivity]).
      congruence.
  Qed.

  Lemma hits_count p0 p1 edges : List.Forall (gp_edge p0 p1) edges ->
    length (probe_hits NumR atol p0 p1 edges) = crossing_count NumR p0 p1 edges.
  Proof.
    unfold probe_hits, crossing_count. induction 1 as [|e r G F IH]; [reflexivity|].
    cbn [flat_map filter]. rewrite app_length, IH, (hits_edge p0 p1 e G).
    destruct (crosses NumR p0 p1 (fst e) (snd e)); reflexivity.
  Qed.

  (* the redundancy filter of Path.intersect removes nothing when the reported
     points are pairwise at least tol apart *)
  Variable tol2 : R.
  Fixpoint pairwise_far (l : list (Cplx R)) : Prop :=
    match l with
    | [] => True
    | x :: r => List.Forall (fun y => near NumR tol2 x y = false) r /\ pairwise_far r
    end.

  Lemma dedupe_id seen l :
    List.Forall (fun y => List.Forall (fun x => near NumR tol2 x y = false) seen) l ->
    pairwise_far l -> dedupe_from NumR tol2 seen l = l.
  Proof.
    revert seen. induction l as [|x r IH]; intros seen S P; [reflexivity|].
    cbn [dedupe_from]. inversion S as [|? ? Sx Sr]; subst. destruct P as [Px Pr].
    assert (E : existsb (fun y => near NumR tol2 y x) seen = false).
    { clear -Sx. induction seen as [|s seen IH]; [reflexivity|].
      inversion Sx; subst. cbn [existsb]. rewrite H1, IH; auto. }
    rewrite E. f_equal. apply IH; [|exact Pr].
    clear -Sr Px. revert Sr Px. induction r as [|y r IH]; intros Sr Px; [constructor|].
    inversion Sr; subst. inversion Px; subst. constructor.
    - apply List.Forall_app. split; [assumption|]. constructor; [assumption|constructor].
    - apply IH; assumption.
  Qed.

  Theorem encloses_parity pt opt edges :
    List.Forall (gp_edge pt opt) edges ->
    pairwise_far (map (fun h => line_point NumR pt opt (fst h)) (probe_hits NumR atol pt opt edges)) ->
    encloses_polygon NumR atol tol2 pt opt edges = even_odd NumR pt opt edges.
  Proof.
    intros G P. unfold encloses_polygon, even_odd, reported_points.
    rewrite dedupe_id; [|apply List.Forall_forall; intros; constructor|exact P].
    rewrite map_length, hits_count by exact G. reflexivity.
  Qed.
End Enclose.

(* the far end of is_contained_by's probe is outside the box it was derived from *)
Lemma probe_target_outside bb : in_bbox NumR bb (probe_target NumR bb) = false.
Proof.
  destruct bb as [[[xmin xmax] ymin] ymax]. unfold in_bbox, probe_target.
  cbn [re im fst snd leb sub one NumR].
  assert (E : Rle_b xmin (xmin - 1) = false) by (apply Rle_b_false; lra).
  rewrite E. reflexivity.
Qed.
