(* Proofs/BezierDeriv.v — derivative(t, n) is the n-th formal derivative of
   poly(), for every n >= 1 (generic field). *)
From Coq Require Import ZArith List Bool Field Lia.
From SVP Require Import Base.Num Base.Cplx Base.Poly Base.FieldTac Model.Bezier Proofs.BezierAlg.
Import ListNotations.

Section D.
  Context {K : Type} (N : Num K) (OK : NumFieldOK N).
  Add Field KF : (Fth OK).

  Lemma iter_cpderiv_nil k : iter (cpderiv N) k [] = [].
  Proof. induction k; cbn; auto. Qed.

  Lemma iter_plus {A} (f : A -> A) a b x : iter f (a + b) x = iter f b (iter f a x).
  Proof. revert x; induction a; cbn; auto. Qed.

  Ltac dring :=
    destruct_cplx; cunfold; cbn [iter cpderiv length fold_left];
    cbn [lit of_pos npow Z.of_nat Pos.of_succ_nat Pos.succ fst snd];
    apply cplx_eq; cbn [fst snd]; ring.

  Lemma cubic_deriv_formal s c1 c2 e t n : (1 <= n)%Z ->
    cubic_deriv N s c1 c2 e t n =
    Some (cpeval N (iter (cpderiv N) (Z.to_nat n) (cubic_poly N s c1 c2 e)) t).
  Proof.
    intros Hn. unfold cubic_deriv.
    destruct (Z.eqb_spec n 1) as [->|H1].
    { change (Z.to_nat 1) with 1%nat. unfold cubic_poly; cbn.
      f_equal. dring. }
    destruct (Z.eqb_spec n 2) as [->|H2].
    { change (Z.to_nat 2) with 2%nat. unfold cubic_poly; cbn.
      f_equal. dring. }
    destruct (Z.eqb_spec n 3) as [->|H3].
    { change (Z.to_nat 3) with 3%nat. unfold cubic_poly; cbn.
      f_equal. dring. }
    assert (Hg : (n >? 3)%Z = true) by lia. rewrite Hg.
    replace (Z.to_nat n) with (4 + (Z.to_nat n - 4))%nat by lia.
    rewrite iter_plus.
    cbn [iter cubic_poly cpderiv length]. rewrite iter_cpderiv_nil. reflexivity.
  Qed.

  Lemma quad_deriv_formal s c e t n : (1 <= n)%Z ->
    quad_deriv N s c e t n =
    Some (cpeval N (iter (cpderiv N) (Z.to_nat n) (quad_poly N s c e)) t).
  Proof.
    intros Hn. unfold quad_deriv.
    destruct (Z.eqb_spec n 1) as [->|H1].
    { change (Z.to_nat 1) with 1%nat. unfold quad_poly; cbn.
      f_equal. dring. }
    destruct (Z.eqb_spec n 2) as [->|H2].
    { change (Z.to_nat 2) with 2%nat. unfold quad_poly; cbn.
      f_equal. dring. }
    assert (Hg : (n >? 2)%Z = true) by lia. rewrite Hg.
    replace (Z.to_nat n) with (3 + (Z.to_nat n - 3))%nat by lia.
    rewrite iter_plus.
    cbn [iter quad_poly cpderiv length]. rewrite iter_cpderiv_nil. reflexivity.
  Qed.

  Lemma line_deriv_formal s e t n : (1 <= n)%Z ->
    line_deriv N s e t n =
    Some (cpeval N (iter (cpderiv N) (Z.to_nat n) (line_poly N s e)) t).
  Proof.
    intros Hn. unfold line_deriv.
    destruct (Z.eqb_spec n 1) as [->|H1].
    { change (Z.to_nat 1) with 1%nat. unfold line_poly; cbn.
      f_equal. dring. }
    assert (Hg : (n >? 1)%Z = true) by lia. rewrite Hg.
    replace (Z.to_nat n) with (2 + (Z.to_nat n - 2))%nat by lia.
    rewrite iter_plus.
    cbn [iter line_poly cpderiv length]. rewrite iter_cpderiv_nil. reflexivity.
  Qed.

  (* n <= 0 is rejected *)
  Lemma deriv_rejects s c1 c2 e t n : (n <= 0)%Z ->
    cubic_deriv N s c1 c2 e t n = None /\ quad_deriv N s c1 e t n = None
    /\ line_deriv N s e t n = None.
  Proof.
    intros H. unfold cubic_deriv, quad_deriv, line_deriv.
    destruct (Z.eqb_spec n 1); try lia. destruct (Z.eqb_spec n 2); try lia.
    destruct (Z.eqb_spec n 3); try lia.
    assert ((n >? 3)%Z = false) as -> by lia.
    assert ((n >? 2)%Z = false) as -> by lia.
    assert ((n >? 1)%Z = false) as -> by lia. auto.
  Qed.
End D.
