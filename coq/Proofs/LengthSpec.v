(* Proofs/LengthSpec.v — facts about the arc-length specification
   arclen = RInt speed  for C1 plane curves: existence, non-negativity,
   additivity (Chasles), chord <= arclen (projection trick), chord sums of
   partitions, sup / Cauchy-Schwarz upper bounds per cell. *)
From Coq Require Import ZArith List Bool Reals Lra Lia Psatz.
From Coquelicot Require Import Coquelicot.
From SVP Require Import Base.Num Base.Cplx Model.Length.
Import ListNotations.
Local Open Scope R_scope.

(* ---------- plane norm ---------- *)
Definition hyp (x y : R) : R := sqrt (x ^ 2 + y ^ 2).

Lemma le_of_sq a b : 0 <= b -> a ^ 2 <= b ^ 2 -> a <= b.
Proof. intros. destruct (Rle_dec a 0); nra. Qed.
Lemma hyp_nonneg x y : 0 <= hyp x y.
Proof. apply sqrt_pos. Qed.
Lemma hyp_sq x y : hyp x y * hyp x y = x ^ 2 + y ^ 2.
Proof. unfold hyp. apply sqrt_sqrt. nra. Qed.
Lemma hyp_0 x y : hyp x y = 0 -> x = 0 /\ y = 0.
Proof. intros H. pose proof (hyp_sq x y) as E. rewrite H in E. nra. Qed.
(* Cauchy-Schwarz with a unit vector *)
Lemma dot_le_hyp ux uy x y : ux ^ 2 + uy ^ 2 = 1 -> ux * x + uy * y <= hyp x y.
Proof.
  intros U. pose proof (hyp_nonneg x y) as P. pose proof (hyp_sq x y) as S.
  destruct (Rle_dec (ux * x + uy * y) 0) as [L|L]; [lra|].
  apply Rnot_le_lt in L.
  assert ((ux * x + uy * y) ^ 2 <= hyp x y ^ 2).
  { replace (hyp x y ^ 2) with (x ^ 2 + y ^ 2) by (rewrite <- S; ring).
    replace (x ^ 2 + y ^ 2) with ((ux ^ 2 + uy ^ 2) * (x ^ 2 + y ^ 2)) by (rewrite U; ring).
    pose proof (pow2_ge_0 (ux * y - uy * x)). nra. }
  nra.
Qed.
Lemma hyp_scal a x y : 0 <= a -> hyp (a * x) (a * y) = a * hyp x y.
Proof.
  intros A. unfold hyp.
  replace ((a * x) ^ 2 + (a * y) ^ 2) with (a ^ 2 * (x ^ 2 + y ^ 2)) by ring.
  rewrite sqrt_mult_alt by nra. rewrite sqrt_pow2 by lra. reflexivity.
Qed.
Lemma hyp_triangle x1 y1 x2 y2 : hyp (x1 + x2) (y1 + y2) <= hyp x1 y1 + hyp x2 y2.
Proof.
  pose proof (hyp_nonneg x1 y1) as P1. pose proof (hyp_nonneg x2 y2) as P2.
  pose proof (hyp_sq x1 y1) as S1. pose proof (hyp_sq x2 y2) as S2.
  pose proof (hyp_nonneg (x1 + x2) (y1 + y2)) as P. pose proof (hyp_sq (x1 + x2) (y1 + y2)) as S.
  assert (C : x1 * x2 + y1 * y2 <= hyp x1 y1 * hyp x2 y2).
  { destruct (Rle_dec (x1 * x2 + y1 * y2) 0) as [L|L]; [nra|]. apply Rnot_le_lt in L.
    assert ((x1 * x2 + y1 * y2) ^ 2 <= (hyp x1 y1 * hyp x2 y2) ^ 2).
    { replace ((hyp x1 y1 * hyp x2 y2) ^ 2) with ((x1 ^ 2 + y1 ^ 2) * (x2 ^ 2 + y2 ^ 2))
        by (rewrite <- S1, <- S2; ring).
      pose proof (pow2_ge_0 (x1 * y2 - y1 * x2)). nra. }
    apply le_of_sq; [nra|assumption]. }
  apply le_of_sq; [lra|].
  replace (hyp (x1 + x2) (y1 + y2) ^ 2) with ((x1 + x2) ^ 2 + (y1 + y2) ^ 2) by (rewrite <- S; ring).
  replace ((hyp x1 y1 + hyp x2 y2) ^ 2)
    with ((x1 ^ 2 + y1 ^ 2) + (x2 ^ 2 + y2 ^ 2) + 2 * (hyp x1 y1 * hyp x2 y2))
    by (rewrite <- S1, <- S2; ring).
  lra.
Qed.
Lemma hyp_neg x y : hyp (- x) (- y) = hyp x y.
Proof. unfold hyp. f_equal. ring. Qed.
Lemma hyp_abs_diff x1 y1 x2 y2 : Rabs (hyp x1 y1 - hyp x2 y2) <= hyp (x1 - x2) (y1 - y2).
Proof.
  pose proof (hyp_triangle (x1 - x2) (y1 - y2) x2 y2) as A.
  pose proof (hyp_triangle (x2 - x1) (y2 - y1) x1 y1) as B.
  replace (x1 - x2 + x2) with x1 in A by ring. replace (y1 - y2 + y2) with y1 in A by ring.
  replace (x2 - x1 + x1) with x2 in B by ring. replace (y2 - y1 + y1) with y2 in B by ring.
  assert (E : hyp (x2 - x1) (y2 - y1) = hyp (x1 - x2) (y1 - y2)).
  { rewrite <- (hyp_neg (x1 - x2)). f_equal; ring. }
  rewrite E in B.
  apply Rabs_le. lra.
Qed.

(* ---------- the speed of a C1 curve ---------- *)
Section Spec.
  Variables dx dy : R -> R.
  Hypothesis cdx : forall t, continuous dx t.
  Hypothesis cdy : forall t, continuous dy t.

  Lemma speed_hyp t : speed dx dy t = hyp (dx t) (dy t).
  Proof. reflexivity. Qed.
  Lemma speed_nonneg t : 0 <= speed dx dy t.
  Proof. apply sqrt_pos. Qed.
  Lemma speed_continuous t : continuous (speed dx dy) t.
  Proof.
    unfold speed. apply continuous_sqrt_comp.
    apply (continuous_plus (fun t => dx t ^ 2) (fun t => dy t ^ 2)).
    - simpl. apply (continuous_mult dx (fun t => dx t * 1)); [apply cdx|].
      apply (continuous_mult dx (fun _ => 1)); [apply cdx|apply continuous_const].
    - simpl. apply (continuous_mult dy (fun t => dy t * 1)); [apply cdy|].
      apply (continuous_mult dy (fun _ => 1)); [apply cdy|apply continuous_const].
  Qed.
  Lemma speed_ex_RInt a b : ex_RInt (speed dx dy) a b.
  Proof. apply (ex_RInt_continuous (speed dx dy)). intros; apply speed_continuous. Qed.

  Lemma arclen_nonneg a b : a <= b -> 0 <= arclen dx dy a b.
  Proof.
    intros [L| ->].
    - apply RInt_ge_0; [lra|apply speed_ex_RInt|intros; apply speed_nonneg].
    - unfold arclen. rewrite RInt_point. apply Rle_refl.
  Qed.
  Lemma arclen_point a : arclen dx dy a a = 0.
  Proof. unfold arclen. now rewrite RInt_point. Qed.
  Lemma arclen_additive a b c : arclen dx dy a b + arclen dx dy b c = arclen dx dy a c.
  Proof.
    unfold arclen. apply (RInt_Chasles (speed dx dy) a b c); apply speed_ex_RInt.
  Qed.
  Lemma arclen_mono a b c : a <= b -> b <= c -> arclen dx dy a b <= arclen dx dy a c.
  Proof. intros. rewrite <- (arclen_additive a b c). pose proof (arclen_nonneg _ _ H0). lra. Qed.

  (* cell upper bounds *)
  Lemma arclen_le_sup a b M : a <= b -> (forall t, a <= t <= b -> speed dx dy t <= M) ->
    arclen dx dy a b <= (b - a) * M.
  Proof.
    intros [L| ->] H.
    - replace ((b - a) * M) with (RInt (fun _ => M) a b)
        by (rewrite RInt_const; unfold scal; simpl; unfold mult; simpl; ring).
      apply RInt_le; try lra. apply speed_ex_RInt. apply ex_RInt_const.
      intros; apply H; lra.
    - rewrite arclen_point. lra.
  Qed.
End Spec.

Lemma last_cons {A} (r : list A) : forall p a, last (p :: r) a = last r p.
Proof.
  induction r as [|q r IH]; intros p a; [reflexivity|].
  change (last (p :: q :: r) a) with (last (q :: r) a). rewrite (IH q a), (IH q p). reflexivity.
Qed.

(* ---------- chord <= arclen ---------- *)
Section Chord.
  Variable g : C1curve.
  Let cx := gdx_c g. Let cy := gdy_c g.

  Lemma proj_cont ux uy t : continuous (fun t => ux * gdx g t + uy * gdy g t) t.
  Proof.
    apply (continuous_plus (fun t => ux * gdx g t) (fun t => uy * gdy g t)).
    - apply (continuous_mult (fun _ => ux) (gdx g)); [apply continuous_const|apply cx].
    - apply (continuous_mult (fun _ => uy) (gdy g)); [apply continuous_const|apply cy].
  Qed.
  Lemma proj_is_RInt ux uy a b :
    is_RInt (fun t => ux * gdx g t + uy * gdy g t) a b
            (ux * (gx g b - gx g a) + uy * (gy g b - gy g a)).
  Proof.
    assert (H : is_RInt (fun t => ux * gdx g t + uy * gdy g t) a b
                  (minus ((fun t => ux * gx g t + uy * gy g t) b)
                         ((fun t => ux * gx g t + uy * gy g t) a))).
    { apply (is_RInt_derive (fun t => ux * gx g t + uy * gy g t)
                            (fun t => ux * gdx g t + uy * gdy g t)).
      - intros t _. pose proof (gx_d g t) as Dx. pose proof (gy_d g t) as Dy.
        auto_derive.
        + repeat split; eexists; eassumption.
        + replace (Derive (fun x : R => gx g x) t) with (gdx g t)
            by (symmetry; apply is_derive_unique; exact Dx).
          replace (Derive (fun x : R => gy g x) t) with (gdy g t)
            by (symmetry; apply is_derive_unique; exact Dy). ring.
      - intros t _. apply proj_cont. }
    unfold minus, plus, opp in H; simpl in H.
    replace (ux * (gx g b - gx g a) + uy * (gy g b - gy g a))
      with (ux * gx g b + uy * gy g b + - (ux * gx g a + uy * gy g a)) by ring.
    exact H.
  Qed.

  (* |g(b) - g(a)| <= arc length between a and b *)
  Theorem chord_le_arclen a b : a <= b -> chord g a b <= curve_len g a b.
  Proof.
    intros H. unfold chord, curve_len.
    set (X := gx g b - gx g a). set (Y := gy g b - gy g a). fold (hyp X Y).
    pose proof (hyp_nonneg X Y) as P. pose proof (hyp_sq X Y) as S.
    destruct (Req_dec (hyp X Y) 0) as [Z|NZ].
    - rewrite Z. apply arclen_nonneg; auto.
    - set (ux := X / hyp X Y). set (uy := Y / hyp X Y).
      assert (U : ux ^ 2 + uy ^ 2 = 1).
      { unfold ux, uy. replace ((X / hyp X Y) ^ 2 + (Y / hyp X Y) ^ 2)
          with ((X ^ 2 + Y ^ 2) / (hyp X Y * hyp X Y)) by (field; assumption).
        rewrite S. field. nra. }
      assert (E : hyp X Y = ux * X + uy * Y).
      { unfold ux, uy. replace (X / hyp X Y * X + Y / hyp X Y * Y)
          with ((X ^ 2 + Y ^ 2) / hyp X Y) by (field; assumption).
        rewrite <- S. field. assumption. }
      rewrite E. unfold X, Y.
      rewrite <- (is_RInt_unique _ _ _ _ (proj_is_RInt ux uy a b)).
      apply RInt_le; auto.
      + eexists; apply proj_is_RInt.
      + apply speed_ex_RInt; auto.
      + intros t _. apply dot_le_hyp. exact U.
  Qed.

  (* chord sum of a partition a = p0 <= p1 <= ... <= pn *)
  Fixpoint chord_sum (a : R) (ps : list R) : R :=
    match ps with
    | [] => 0
    | p :: r => chord g a p + chord_sum p r
    end.
  Fixpoint sorted_from (a : R) (ps : list R) : Prop :=
    match ps with
    | [] => True
    | p :: r => a <= p /\ sorted_from p r
    end.
  Theorem chord_sum_le_arclen ps : forall a, sorted_from a ps ->
    chord_sum a ps <= curve_len g a (last ps a).
  Proof.
    induction ps as [|p r IH]; intros a Hs.
    - simpl. unfold curve_len. rewrite arclen_point. lra.
    - destruct Hs as [Hap Hr]. simpl chord_sum.
      rewrite last_cons.
      unfold curve_len. rewrite <- (arclen_additive (gdx g) (gdy g) cx cy a p (last r p)).
      pose proof (chord_le_arclen a p Hap). pose proof (IH p Hr).
      unfold curve_len in *. lra.
  Qed.
End Chord.

(* ---------- Cauchy-Schwarz cell bound: (RInt f)^2 <= (b-a) RInt f^2 ---------- *)
Section CS.
  Variable f : R -> R.
  Hypothesis cf : forall t, continuous f t.
  Hypothesis fpos : forall t, 0 <= f t.

  Lemma cf2 t : continuous (fun t => f t ^ 2) t.
  Proof.
    simpl. apply (continuous_mult f (fun t => f t * 1)); [apply cf|].
    apply (continuous_mult f (fun _ => 1)); [apply cf|apply continuous_const].
  Qed.
  Lemma RInt_cauchy_schwarz a b : a <= b ->
    RInt f a b <= sqrt ((b - a) * RInt (fun t => f t ^ 2) a b).
  Proof.
    intros [L| ->]; [|rewrite !RInt_point; unfold zero; simpl; apply sqrt_pos].
    set (I1 := RInt f a b). set (I2 := RInt (fun t => f t ^ 2) a b).
    assert (E1 : ex_RInt f a b) by (apply (ex_RInt_continuous f); intros; apply cf).
    assert (E2 : ex_RInt (fun t => f t ^ 2) a b)
      by (apply (ex_RInt_continuous (fun t => f t ^ 2)); intros; apply cf2).
    assert (P1 : 0 <= I1) by (apply RInt_ge_0; auto; lra).
    assert (P2 : 0 <= I2) by (apply RInt_ge_0; auto; try lra; intros; nra).
    (* for every lam:  2 lam I1 <= lam^2 (b-a) + I2 *)
    assert (Q : forall lam, 2 * lam * I1 <= lam ^ 2 * (b - a) + I2).
    { intros lam.
      assert (Eg : ex_RInt (fun t => 2 * lam * f t) a b).
      { apply (ex_RInt_continuous (fun t => 2 * lam * f t)). intros.
        apply (continuous_mult (fun _ => 2 * lam) f); [apply continuous_const|apply cf]. }
      assert (Eh : ex_RInt (fun t => lam ^ 2 + f t ^ 2) a b).
      { apply (ex_RInt_continuous (fun t => lam ^ 2 + f t ^ 2)). intros.
        apply (continuous_plus (fun _ => lam ^ 2) (fun t => f t ^ 2));
          [apply continuous_const|apply cf2]. }
      assert (A : RInt (fun t => 2 * lam * f t) a b = 2 * lam * I1).
      { apply is_RInt_unique.
        apply (is_RInt_scal f a b (2 * lam) I1). unfold I1. apply (RInt_correct f); auto. }
      assert (B : RInt (fun t => lam ^ 2 + f t ^ 2) a b = lam ^ 2 * (b - a) + I2).
      { apply is_RInt_unique.
        replace (lam ^ 2 * (b - a)) with (scal (b - a) (lam ^ 2))
          by (unfold scal; simpl; unfold mult; simpl; ring).
        apply (is_RInt_plus (fun _ => lam ^ 2) (fun t => f t ^ 2)).
        - exact (@is_RInt_const R_NormedModule a b (lam ^ 2)).
        - unfold I2. apply (RInt_correct (fun t => f t ^ 2)); auto. }
      rewrite <- A, <- B. apply RInt_le; auto; try lra.
      intros t _. pose proof (pow2_ge_0 (lam - f t)). nra. }
    apply le_of_sq; [apply sqrt_pos|].
    rewrite <- (Rsqr_pow2 (sqrt _)). rewrite Rsqr_sqrt by nra.
    (* choose lam = I1 / (b - a) *)
    pose proof (Q (I1 / (b - a))) as Q1.
    assert (Hq : 2 * (I1 / (b - a)) * I1 = 2 * I1 ^ 2 / (b - a)) by (field; lra).
    assert (Hr : (I1 / (b - a)) ^ 2 * (b - a) = I1 ^ 2 / (b - a)) by (field; lra).
    rewrite Hq, Hr in Q1.
    assert (I1 ^ 2 / (b - a) <= I2) by lra.
    apply (Rmult_le_compat_l (b - a)) in H; [|lra].
    replace ((b - a) * (I1 ^ 2 / (b - a))) with (I1 ^ 2) in H by (field; lra).
    exact H.
  Qed.
End CS.
