(* Proofs/PathCache.v — invariants of the Path cache model (property C16), for
   every setting of the repair flags [fx : fixes] (fx_pinned = the pinned code).

   The tolerances that occur in a history are described by a boolean predicate
   Tb (T t := Tb t = true), under three hypotheses
     HR : two tolerances of T that pass the cubic reuse test give the same value
     HA : the arc cache compares tolerances (fx_arc), or T has one element
     HC : _calc_lengths compares tolerances (fx_calc), or T has one element
   Instances (Props/C16.v): T = {t0} — no hypothesis left, any flags — and
   T = everything — needs fx_arc, fx_calc and a sound cubic reuse test.

   Inv s  :=  ends coherent (and _closed = False unless fx_hash)
              /\ every segment cache, when filled, holds the value of its own key
                 for its own tolerance, which is in T
              /\ the path cache is empty or describes the current control data
                 for the tolerance it remembers, which is in T.

   Main results (any history length, by induction over the event list):
     inv_fresh         Inv (fresh l)            when the segments carry no cache
     inv_step          Inv s -> safe_op s o  -> Inv (fst (step s o))
     inv_obs           Inv s -> safe_q q     -> Inv (fst (obs s q))
     obs_determined    two Inv-states with the same control data answer alike
     fresh_equiv       Inv s -> safe_q q -> snd (obs s q) = snd (obs (fresh_of s) q)
     reachable         Inv along every safe history
   [safe_op] depends on the flags: a repaired operation is never excluded.
   The same for the weaker InvEnds (start/end/_closed only). *)
From Coq Require Import ZArith List Bool Lia.
From SVP Require Import Model.PathCache.
Import ListNotations.

Section Proofs.
  Context {pt pay tol V : Type}.
  Variable fx : fixes.
  Variable pt_eqb : pt -> pt -> bool.
  Variable pt_falsy : pt -> bool.
  Variable pay_eqb : pay -> pay -> bool.
  Variable tol_reuse : tol -> tol -> bool.
  Variable tol_eqb : tol -> tol -> bool.
  Variable t_def : tol.
  Variable len_of : @sdata pt pay -> tol -> V.
  Variables vzero vone : V.
  Variables vadd vsub vdiv : V -> V -> V.
  Variables v_eqb v_geb : V -> V -> bool.

  (* Python's `==` on the stored values is taken to identify them (signed
     zeros / NaN control points are outside the model) *)
  Hypothesis pt_eqb_eq : forall a b, pt_eqb a b = true -> a = b.
  Hypothesis pay_eqb_eq : forall a b, pay_eqb a b = true -> a = b.
  Hypothesis tol_eqb_eq : forall a b, tol_eqb a b = true -> a = b.

  (* the tolerances in play *)
  Variable Tb : tol -> bool.
  Notation T t := (Tb t = true).
  Definition Single : Prop := forall a b, T a -> T b -> a = b.
  Hypothesis HR : forall c t d, T c -> T t -> tol_reuse c t = true -> len_of d c = len_of d t.
  Hypothesis HA : fx_arc fx = true \/ Single.
  Hypothesis HC : fx_calc fx = true \/ Single.

  Notation sdata := (@sdata pt pay).
  Notation seg := (@seg pt pay tol V).
  Notation state := (@state pt pay tol V).
  Notation op := (@op pt pay tol V).
  Notation query := (@query pt pay tol V).
  Notation event := (@event pt pay tol V).
  Notation sdata_eqb := (sdata_eqb pt_eqb pay_eqb).
  Notation seg_length := (seg_length fx pt_eqb pay_eqb tol_reuse tol_eqb len_of).
  Notation calc_lengths := (calc_lengths fx pt_eqb pay_eqb tol_reuse tol_eqb len_of vzero vadd vdiv v_eqb).
  Notation fill_lengths := (fill_lengths fx pt_eqb pay_eqb tol_reuse tol_eqb len_of vzero vadd vdiv v_eqb).
  Notation step := (step fx pt_eqb pay_eqb).
  Notation obs := (obs fx pt_eqb pt_falsy pay_eqb tol_reuse tol_eqb t_def len_of vzero vone vadd vsub vdiv v_eqb v_geb).
  Notation step_ev := (step_ev fx pt_eqb pt_falsy pay_eqb tol_reuse tol_eqb t_def len_of vzero vone vadd vsub vdiv v_eqb v_geb).
  Notation run := (run fx pt_eqb pt_falsy pay_eqb tol_reuse tol_eqb t_def len_of vzero vone vadd vsub vdiv v_eqb v_geb).
  Notation after_set := (after_set fx).
  Notation setitem := (setitem fx).
  Notation insert := (insert fx).
  Notation append := (append fx).
  Notation extend := (extend fx).
  Notation reverse := (reverse fx).
  Notation fractions := (fractions vzero vadd vdiv v_eqb).
  Notation vsum := (vsum vzero vadd).

  Lemma kind_eqb_eq : forall a b, kind_eqb a b = true -> a = b.
  Proof. destruct a, b; simpl; congruence. Qed.
  Lemma sdata_eqb_eq : forall a b : sdata, sdata_eqb a b = true -> a = b.
  Proof.
    intros [k1 s1 e1 p1] [k2 s2 e2 p2]; unfold PathCache.sdata_eqb; simpl.
    rewrite !andb_true_iff. intros [[[H1 H2] H3] H4].
    apply kind_eqb_eq in H1. apply pt_eqb_eq in H2. apply pt_eqb_eq in H3. apply pay_eqb_eq in H4.
    congruence.
  Qed.

  (* ------------------------------------------------ segment caches *)
  Definition SegOK (g : seg) : Prop :=
    match scache g with
    | None => True
    | Some c => T (ctol c) /\ cval c = len_of (ckey c) (ctol c)
    end.

  Lemma seg_length_sd : forall g t, sd (fst (seg_length g t)) = sd g.
  Proof.
    intros g t. unfold PathCache.seg_length, compute.
    destruct (skind (sd g)); simpl; auto; destruct (scache g) as [c|]; simpl; auto;
      match goal with |- context [if ?b then _ else _] => destruct b end; simpl; auto.
  Qed.

  Lemma seg_length_ok : forall t g, SegOK g -> T t ->
      snd (seg_length g t) = len_of (sd g) t /\ SegOK (fst (seg_length g t)).
  Proof.
    intros t g H Tt. unfold PathCache.seg_length, compute.
    destruct (skind (sd g)); simpl; auto.
    - (* cubic *)
      unfold SegOK in H. destruct (scache g) as [c|] eqn:E.
      + destruct (sdata_eqb (ckey c) (sd g)) eqn:K; simpl.
        * destruct (tol_reuse (ctol c) t) eqn:R; simpl.
          -- destruct H as [Ht Hv]. apply sdata_eqb_eq in K. split.
             ++ rewrite Hv, K. apply HR; auto.
             ++ unfold SegOK. rewrite E. auto.
          -- split; auto. unfold SegOK; simpl; auto.
        * split; auto. unfold SegOK; simpl; auto.
      + simpl. split; auto. unfold SegOK; simpl; auto.
    - (* arc *)
      unfold SegOK in H. destruct (scache g) as [c|] eqn:E.
      + destruct (sdata_eqb (ckey c) (sd g)) eqn:K; simpl.
        * destruct (negb (fx_arc fx) || tol_eqb (ctol c) t) eqn:R; simpl.
          -- destruct H as [Ht Hv]. apply sdata_eqb_eq in K.
             assert (Et : ctol c = t).
             { destruct HA as [A|A].
               - rewrite A in R. simpl in R. apply tol_eqb_eq; auto.
               - apply A; auto. }
             split; [rewrite Hv, K, Et; reflexivity|]. unfold SegOK. rewrite E. auto.
          -- split; auto. unfold SegOK; simpl; auto.
        * split; auto. unfold SegOK; simpl; auto.
      + simpl. split; auto. unfold SegOK; simpl; auto.
  Qed.

  Lemma SegOK_clear : forall g, SegOK (clear_cache g).
  Proof. intros; unfold SegOK; simpl; auto. Qed.
  Lemma SegOK_with_start : forall g z, SegOK g -> SegOK (with_start g z).
  Proof. intros g z H; unfold SegOK, with_start in *; simpl; auto. Qed.
  Lemma SegOK_with_end : forall g z, SegOK g -> SegOK (with_end g z).
  Proof. intros g z H; unfold SegOK, with_end in *; simpl; auto. Qed.

  (* the segment-level statement: whatever was done to the control data of a
     segment whose cache is OK, length at a tolerance of T is the fresh answer *)
  Lemma segment_fresh : forall t g, SegOK g -> T t ->
      snd (seg_length g t) = snd (seg_length (clear_cache g) t).
  Proof.
    intros t g H Tt. destruct (seg_length_ok t g H Tt) as [E _].
    destruct (seg_length_ok t (clear_cache g) (SegOK_clear g) Tt) as [E' _].
    rewrite E, E'. reflexivity.
  Qed.

  (* --------------------------------------------------- invariants *)
  Definition vals_of (t : tol) (l : list sdata) : list V := map (fun d => len_of d t) l.
  Definition InvLen (s : state) : Prop :=
    match plength s with
    | None => True
    | Some L => exists t, ptol s = Some t /\ T t /\ L = vsum (vals_of t (sds s))
                          /\ plengths s = fractions (vals_of t (sds s))
    end.
  Definition InvEnds (s : state) : Prop :=
    pstart s = first_start (segs s) /\ pend s = last_end (segs s)
    /\ (fx_hash fx = true \/ pclosed s = false).
  Definition InvSegs (s : state) : Prop := Forall SegOK (segs s).
  Definition Inv (s : state) : Prop := InvEnds s /\ InvSegs s /\ InvLen s.

  Definition no_cache (g : seg) : bool := match scache g with None => true | Some _ => false end.
  Lemma no_cache_ok : forall g, no_cache g = true -> SegOK g.
  Proof. intros g; unfold no_cache, SegOK; destruct (scache g); [discriminate|auto]. Qed.
  Lemma forallb_no_cache : forall l, forallb no_cache l = true -> Forall SegOK l.
  Proof.
    intros l E. apply Forall_forall. intros g Hin. apply no_cache_ok.
    rewrite forallb_forall in E. apply E. exact Hin.
  Qed.

  Lemma inv_fresh : forall l, Forall SegOK l -> Inv (fresh l).
  Proof. intros; repeat split; simpl; auto. Qed.
  (* a parsed path may carry _closed = True: harmless once the hash ignores it *)
  Lemma inv_fresh_closed : forall l c, Forall SegOK l -> fx_hash fx = true \/ c = false ->
      Inv (fresh_closed l c).
  Proof. intros; repeat split; simpl; auto. Qed.

  (* ---- list facts *)
  Lemma Forall_set_nth : forall (P : seg -> Prop) k x l, Forall P l -> P x -> Forall P (set_nth k x l).
  Proof.
    intros P k x l H; revert k; induction H; intros k Hx; destruct k; simpl; auto.
  Qed.
  Lemma Forall_del_nth : forall (P : seg -> Prop) k l, Forall P l -> Forall P (del_nth k l).
  Proof.
    intros P k l H; revert k; induction H; intros k; destruct k; simpl; auto.
  Qed.
  Lemma Forall_firstn : forall (P : seg -> Prop) k l, Forall P l -> Forall P (firstn k l).
  Proof. intros P k l H; revert k; induction H; intros k; destruct k; simpl; auto. Qed.
  Lemma Forall_skipn : forall (P : seg -> Prop) k l, Forall P l -> Forall P (skipn k l).
  Proof. intros P k l H; revert k; induction H; intros k; destruct k; simpl; auto. Qed.
  Lemma Forall_splice : forall (P : seg -> Prop) lo hi ins l,
      Forall P l -> Forall P ins -> Forall P (splice lo hi ins l).
  Proof.
    intros; unfold splice. apply Forall_app; split; [apply Forall_firstn; auto|].
    apply Forall_app; split; auto. apply Forall_skipn; auto.
  Qed.
  Lemma Forall_map_last : forall (P : seg -> Prop) f l,
      (forall g, P g -> P (f g)) -> Forall P l -> Forall P (map_last f l).
  Proof.
    intros P f l Hf H; induction H; simpl; auto.
    destruct l; auto.
  Qed.
  Lemma set_nth_nonempty : forall (k : nat) (x : seg) l, (k < length l)%nat -> set_nth k x l <> [].
  Proof. intros k x l; destruct l; simpl; [lia|]; destruct k; discriminate. Qed.
  Lemma norm_index_lt : forall n i k, norm_index n i = Some k -> (k < n)%nat.
  Proof.
    unfold norm_index; intros n i k.
    destruct (i <? 0)%Z eqn:E;
      match goal with |- context [if ?b then _ else _] => destruct b eqn:B end; try discriminate;
      intros H; inversion H; subst; apply andb_true_iff in B; destruct B as [B1 B2];
      apply Z.leb_le in B1; apply Z.ltb_lt in B2; lia.
  Qed.
  Lemma first_start_none : forall l : list seg, first_start l = None -> l = [].
  Proof. destruct l; simpl; [auto|discriminate]. Qed.
  Lemma splice_ins_nonempty : forall lo hi (g : seg) ins l, splice lo hi (g :: ins) l <> [].
  Proof. intros; unfold splice. destruct (firstn lo l); simpl; discriminate. Qed.

  Lemma last_cons_default : forall {A} (l : list A) (a d : A), last (a :: l) d = last l a.
  Proof. induction l; intros; simpl; auto. destruct l; auto. simpl in IHl. apply (IHl a0 d). Qed.
  Lemma last_end_cons : forall (a : seg) l, l <> [] -> last_end (a :: l) = last_end l.
  Proof.
    intros a l H. destruct l as [|b r]; [contradiction|].
    unfold last_end, last_error. rewrite last_cons_default. reflexivity.
  Qed.
  Lemma map_last_nonempty : forall (f : seg -> seg) l, l <> [] -> map_last f l <> [].
  Proof. intros f [|a [|b r]] H; simpl; try contradiction; discriminate. Qed.
  Lemma map_last_last_end : forall (l : list seg) z, l <> [] ->
      last_end (map_last (fun g => with_end g z) l) = Some z.
  Proof.
    induction l as [|a l IH]; intros z H; [contradiction|].
    destruct l as [|b r]; [reflexivity|].
    assert (Hb : b :: r <> []) by discriminate.
    change (map_last (fun g => with_end g z) (a :: b :: r))
      with (a :: map_last (fun g => with_end g z) (b :: r)).
    rewrite last_end_cons; [apply IH; auto|apply map_last_nonempty; auto].
  Qed.
  Lemma map_last_first_start : forall (l : list seg) z,
      (1 < length l)%nat -> first_start (map_last (fun g => with_end g z) l) = first_start l.
  Proof. intros [|a [|b r]] z H; simpl in *; try lia; reflexivity. Qed.
  Lemma map_last_first_start' : forall (l : list seg) z,
      first_start (map_last (fun g => with_end g z) l) = first_start l.
  Proof. intros [|a [|b r]] z; simpl in *; reflexivity. Qed.

  Lemma last_end_cons_with_start : forall (g : seg) r z,
      last_end (with_start g z :: r) = last_end (g :: r).
  Proof.
    intros g r z. destruct r as [|b r]; [reflexivity|].
    rewrite (last_end_cons (with_start g z) (b :: r)), (last_end_cons g (b :: r)) by discriminate.
    reflexivity.
  Qed.
  (* ---- the two tails *)
  Lemma after_set_inv : forall s l, Inv s -> Forall SegOK l -> l <> [] \/ fx_slice fx = true ->
      Inv (fst (after_set s l)).
  Proof.
    intros s l [[_ [_ Hc]] _] Hl Hne. unfold PathCache.after_set.
    destruct (first_start l) eqn:E.
    - simpl. repeat split; simpl; auto.
    - apply first_start_none in E. destruct Hne as [N|F]; [contradiction|].
      rewrite F. subst l. repeat split; simpl; auto.
  Qed.
  Lemma after_del_inv : forall s l, Inv s -> Forall SegOK l -> Inv (after_del s l).
  Proof. intros s l [[_ [_ Hc]] _] Hl. repeat split; simpl; auto. Qed.

  Lemma setitem_inv : forall s i g, Inv s -> SegOK g -> Inv (fst (setitem s i g)).
  Proof.
    intros s i g H Hg. unfold PathCache.setitem.
    destruct (norm_index (length (segs s)) i) eqn:E; simpl; auto.
    apply after_set_inv; auto.
    - apply Forall_set_nth; auto. apply H.
    - left. apply set_nth_nonempty. eapply norm_index_lt; eauto.
  Qed.
  Lemma delitem_inv : forall s i, Inv s -> Inv (fst (delitem s i)).
  Proof.
    intros s i H. unfold delitem. destruct (norm_index (length (segs s)) i); simpl; auto.
    apply after_del_inv; auto. apply Forall_del_nth. apply H.
  Qed.
  Lemma insert_inv : forall s i g, Inv s -> SegOK g -> Inv (fst (insert s i g)).
  Proof.
    intros s i g H Hg. unfold PathCache.insert. apply after_set_inv; auto.
    - apply Forall_splice; auto. apply H.
    - left. apply splice_ins_nonempty.
  Qed.
  Lemma extend_inv : forall gs s, Inv s -> Forall SegOK gs -> Inv (fst (extend s gs)).
  Proof.
    induction gs; intros s H Hg; simpl; auto.
    inversion Hg; subst.
    pose proof (insert_inv s (Z.of_nat (length (segs s))) a H H2) as Hi.
    unfold PathCache.append. destruct (insert s (Z.of_nat (length (segs s))) a) as [s' r]; simpl in *.
    destruct r; simpl; auto.
  Qed.
  Lemma nth_error_ok : forall (l : list seg) k g, Forall SegOK l -> nth_error l k = Some g -> SegOK g.
  Proof.
    intros l k g H E. rewrite Forall_forall in H. apply H. eapply nth_error_In; eauto.
  Qed.
  Lemma reverse_inv : forall s, Inv s -> Inv (fst (reverse s)).
  Proof.
    intros s H. unfold PathCache.reverse.
    generalize (seq 0 (Nat.div (length (segs s)) 2)). generalize (length (segs s)) as n.
    intros n l. assert (G : Inv (fst (s, @ROk pt pay))) by exact H.
    revert G. generalize (s, @ROk pt pay) as acc. induction l; intros acc G; simpl; auto.
    apply IHl. destruct acc as [s0 r0]; simpl in *. destruct r0; simpl; auto.
    destruct (nth_error (segs s0) (n - a - 1)) eqn:E1; simpl; auto.
    destruct (nth_error (segs s0) a) eqn:E2; simpl; auto.
    assert (O1 : SegOK s1) by (eapply nth_error_ok; [apply G|eauto]).
    assert (O2 : SegOK s2) by (eapply nth_error_ok; [apply G|eauto]).
    pose proof (setitem_inv s0 (Z.of_nat a) s1 G O1) as G1.
    destruct (setitem s0 (Z.of_nat a) s1) as [s' r']; simpl in *.
    destruct r'; simpl; auto. apply setitem_inv; auto.
  Qed.

  (* ---- which operations keep the invariant: all, except those that hit a
          defect that the flags say is NOT repaired *)
  Definition op_args_fresh (o : op) : bool :=
    match o with
    | SetItem _ g | Insert _ g | Append g => no_cache g
    | SetSlice _ _ gs | Extend gs => forallb no_cache gs
    | _ => true
    end.
  Definition is_nil {A} (l : list A) : bool := match l with [] => true | _ => false end.
  Definition is_none {A} (o : option A) : bool := match o with None => true | _ => false end.
  Definition safe_op (s : state) (o : op) : bool :=
    op_args_fresh o &&
    match o with
    | SetSlice a b gs =>       (* pinned: `path[a:b] = gs` must not empty the path (IndexError after mutation) *)
        let '(lo, hi) := slice_bounds (length (segs s)) a b in
        fx_slice fx || negb (is_nil (splice lo hi gs (segs s)))
    | SetStart _ | SetEnd _ => (* pinned: the setters keep _length: only safe while nothing is cached;
                                  (not repaired) on an empty path they leave a _start/_end a fresh Path has not *)
        negb (is_nil (segs s)) && (fx_setter fx || is_none (plength s))
    | _ => true
    end.
  (* weaker: enough for start / end / len / == / hash / d / bbox *)
  Definition safe_op_ends (s : state) (o : op) : bool :=
    match o with
    | SetSlice a b gs =>
        let '(lo, hi) := slice_bounds (length (segs s)) a b in
        fx_slice fx || negb (is_nil (splice lo hi gs (segs s)))
    | SetStart _ | SetEnd _ => negb (is_nil (segs s))
    | _ => true
    end.
  (* what is left of [safe_op] once the setters and slice assignment are repaired *)
  Definition safe_op_repaired (s : state) (o : op) : bool :=
    op_args_fresh o &&
    match o with
    | SetStart _ | SetEnd _ => negb (is_nil (segs s))
    | _ => true
    end.
  Lemma safe_op_repaired_safe : fx_setter fx = true -> fx_slice fx = true ->
      forall s o, safe_op_repaired s o = true -> safe_op s o = true.
  Proof.
    intros F1 F2 s o H. unfold safe_op_repaired in H. unfold safe_op.
    apply andb_true_iff in H. destruct H as [H1 H2]. rewrite H1. simpl.
    destruct o; auto.
    - destruct (slice_bounds (length (segs s)) a b). rewrite F2. reflexivity.
    - rewrite F1, H2. reflexivity.
    - rewrite F1, H2. reflexivity.
  Qed.

  Lemma setter_length_inv : forall s : state,
      negb (is_nil (segs s)) && (fx_setter fx || is_none (plength s)) = true ->
      setter_length fx s = None.
  Proof.
    intros s H. apply andb_true_iff in H. destruct H as [H1 H2]. unfold setter_length.
    destruct (segs s); [discriminate|]. destruct (fx_setter fx); auto.
    simpl in H2. destruct (plength s); [discriminate|reflexivity].
  Qed.

  Lemma inv_step : forall s o, Inv s -> safe_op s o = true -> Inv (fst (step s o)).
  Proof.
    intros s o H S. unfold safe_op in S. apply andb_true_iff in S. destruct S as [Sf S].
    destruct o; simpl in *.
    - apply setitem_inv; auto. apply no_cache_ok; auto.
    - unfold PathCache.setslice, slice_bounds. apply after_set_inv; auto.
      + apply Forall_splice; [apply H|]. apply forallb_no_cache; auto.
      + destruct (fx_slice fx); [right; reflexivity|left]. simpl in S.
        match type of S with negb (is_nil ?l) = true => destruct l end; [discriminate S|discriminate].
    - apply insert_inv; auto. apply no_cache_ok; auto.
    - apply insert_inv; auto. apply no_cache_ok; auto.
    - apply extend_inv; auto. apply forallb_no_cache; auto.
    - apply delitem_inv; auto.
    - unfold delslice. destruct (slice_bounds (length (segs s)) a b) as [lo hi]. simpl.
      apply after_del_inv; auto. apply Forall_splice; [apply H|constructor].
    - unfold pop. destruct (norm_index (length (segs s)) i) eqn:E; simpl; auto.
      destruct (nth_error (segs s) n); simpl; auto.
      pose proof (delitem_inv s i H) as Hd.
      destruct (delitem s i) as [s' r]; simpl in *. destruct r; simpl; auto.
    - apply reverse_inv; auto.
    - unfold remove. destruct (index_of pt_eqb pay_eqb (sd g) (segs s) 0); simpl; auto.
      apply delitem_inv; auto.
    - pose proof (setter_length_inv s S) as SL.
      apply andb_true_iff in S. destruct S as [Sn _].
      destruct H as [[Hs [He Hc]] [Hg Hl]]. unfold InvSegs in Hg.
      destruct (segs s) as [|g r] eqn:E; [discriminate|].
      repeat split; simpl; auto.
      + rewrite He. symmetry. apply last_end_cons_with_start.
      + unfold InvSegs; simpl. inversion Hg; subst. constructor; auto using SegOK_with_start.
      + unfold InvLen; simpl. rewrite SL. exact I.
    - pose proof (setter_length_inv s S) as SL.
      apply andb_true_iff in S. destruct S as [Sn _].
      destruct H as [[Hs [He Hc]] [Hg Hl]]. unfold InvSegs in Hg.
      assert (Hne : segs s <> []) by (destruct (segs s); [discriminate|discriminate]).
      repeat split; simpl; auto.
      + rewrite Hs. symmetry. apply map_last_first_start'.
      + symmetry. apply map_last_last_end; auto.
      + unfold InvSegs; simpl. apply Forall_map_last; auto using SegOK_with_end.
      + unfold InvLen; simpl. rewrite SL. exact I.
  Qed.

  (* ---------------------------------------------------------- queries *)
  Lemma map_seg_length_spec : forall t l, T t -> Forall SegOK l ->
      map snd (map (fun g => seg_length g t) l) = vals_of t (map sd l)
      /\ map sd (map fst (map (fun g => seg_length g t) l)) = map sd l
      /\ Forall SegOK (map fst (map (fun g => seg_length g t) l)).
  Proof.
    intros t l Tt. induction 1; simpl; [repeat split; constructor|].
    destruct IHForall as [A [B C]]. destruct (seg_length_ok t x H Tt) as [E O].
    rewrite A, B, E, seg_length_sd. repeat split; auto.
  Qed.
  Lemma map_seg_length_sd : forall t (l : list seg),
      map sd (map fst (map (fun g => seg_length g t) l)) = map sd l.
  Proof. induction l; simpl; auto. rewrite seg_length_sd, IHl. reflexivity. Qed.

  Lemma first_start_sds : forall l : list seg,
      first_start l = option_map (@sstart pt pay) (hd_error (map sd l)).
  Proof. destruct l; reflexivity. Qed.
  Lemma last_map : forall (l : list seg) (a : seg), sd (last l a) = last (map sd l) (sd a).
  Proof. induction l; intros; simpl; auto. destruct l; simpl in *; auto. Qed.
  Lemma last_end_sds : forall l : list seg,
      last_end l = option_map (@send pt pay) (last_error (map sd l)).
  Proof.
    destruct l; [reflexivity|]. unfold last_end, last_error. simpl. rewrite last_map. reflexivity.
  Qed.
  Lemma first_start_same_sds : forall l1 l2 : list seg, map sd l1 = map sd l2 -> first_start l1 = first_start l2.
  Proof. intros; rewrite !first_start_sds; congruence. Qed.
  Lemma last_end_same_sds : forall l1 l2 : list seg, map sd l1 = map sd l2 -> last_end l1 = last_end l2.
  Proof. intros; rewrite !last_end_sds; congruence. Qed.


  Lemma fill_spec : forall t s, InvEnds s -> InvSegs s -> T t ->
      let s' := fill_lengths t s in
      Inv s' /\ sds s' = sds s
      /\ plength s' = Some (vsum (vals_of t (sds s)))
      /\ plengths s' = fractions (vals_of t (sds s))
      /\ pstart s' = pstart s /\ pend s' = pend s /\ pclosed s' = pclosed s.
  Proof.
    intros t s [Hs [He Hc]] Hg Tt. unfold PathCache.fill_lengths.
    destruct (map_seg_length_spec t (segs s) Tt Hg) as [A [B C]].
    unfold sds; simpl. rewrite A, B.
    repeat split; simpl; auto.
    - rewrite Hs. apply first_start_same_sds. auto.
    - rewrite He. apply last_end_same_sds. auto.
    - unfold InvLen; simpl. exists t. unfold sds; simpl. rewrite B. auto.
  Qed.
  Lemma calc_spec : forall t s, Inv s -> T t ->
      let s' := calc_lengths t s in
      Inv s' /\ sds s' = sds s
      /\ plength s' = Some (vsum (vals_of t (sds s)))
      /\ plengths s' = fractions (vals_of t (sds s))
      /\ pstart s' = pstart s /\ pend s' = pend s /\ pclosed s' = pclosed s.
  Proof.
    intros t s H Tt. unfold PathCache.calc_lengths. destruct (plength s) eqn:E.
    - destruct (fx_calc fx && negb (tol_is tol_eqb (ptol s) t)) eqn:F.
      + apply fill_spec; auto; apply H.
      + pose proof H as [He [Hg Hl]]. unfold InvLen in Hl. rewrite E in Hl.
        destruct Hl as [t' [P1 [P2 [L1 L2]]]].
        assert (Et : t' = t).
        { destruct HC as [C|C].
          - rewrite C in F. simpl in F. rewrite P1 in F. simpl in F.
            apply negb_false_iff in F. apply tol_eqb_eq; auto.
          - apply C; auto. }
        subst t'. simpl. split; [exact H|]. split; [reflexivity|].
        split; [congruence|]. split; [exact L2|]. auto.
    - apply fill_spec; auto; apply H.
  Qed.
  Lemma fill_sds : forall t s, sds (fill_lengths t s) = sds s.
  Proof. intros t s. unfold PathCache.fill_lengths, sds; simpl. apply map_seg_length_sd. Qed.
  Lemma calc_sds : forall t s, sds (calc_lengths t s) = sds s.
  Proof.
    intros t s. unfold PathCache.calc_lengths. destruct (plength s); [|apply fill_sds].
    destruct (fx_calc fx && negb (tol_is tol_eqb (ptol s) t)); [apply fill_sds|reflexivity].
  Qed.
  Lemma calc_ends : forall t s,
      pstart (calc_lengths t s) = pstart s /\ pend (calc_lengths t s) = pend s
      /\ pclosed (calc_lengths t s) = pclosed s.
  Proof.
    intros t s. unfold PathCache.calc_lengths. destruct (plength s); simpl; auto.
    destruct (fx_calc fx && negb (tol_is tol_eqb (ptol s) t)); simpl; auto.
  Qed.

  Lemma start_prop_id : forall s : state, InvEnds s -> start_prop pt_falsy s = (s, pstart s).
  Proof.
    intros s [Hs _]. unfold start_prop. destruct (is_falsy pt_falsy (pstart s)); auto.
    destruct (first_start (segs s)) eqn:E; auto. rewrite Hs. destruct s; simpl in *. subst. reflexivity.
  Qed.
  Lemma end_prop_id : forall s : state, InvEnds s -> end_prop pt_falsy s = (s, pend s).
  Proof.
    intros s [_ [He _]]. unfold end_prop. destruct (is_falsy pt_falsy (pend s)); auto.
    destruct (last_end (segs s)) eqn:E; auto. rewrite He. destruct s; simpl in *. subst. reflexivity.
  Qed.

  (* the tolerance a query hands to _calc_lengths must be one of T *)
  Definition safe_q (q : query) : bool :=
    match q with
    | QLength t' => Tb t'
    | QPoint _ | QT2t _ => Tb t_def
    | _ => true
    end.

  Lemma InvEnds_calc : forall t s, InvEnds s -> InvEnds (calc_lengths t s).
  Proof.
    intros t s [Hs [He Hc]]. destruct (calc_ends t s) as [A [B C]]. pose proof (calc_sds t s) as D.
    unfold sds in D. repeat split.
    - rewrite A, Hs. symmetry. apply first_start_same_sds; auto.
    - rewrite B, He. symmetry. apply last_end_same_sds; auto.
    - rewrite C. exact Hc.
  Qed.

  Lemma inv_obs : forall s q, Inv s -> safe_q q = true ->
      Inv (fst (obs s q)) /\ sds (fst (obs s q)) = sds s.
  Proof.
    intros s q H S. pose proof H as [He _]. destruct q; simpl in *; auto.
    - rewrite (start_prop_id s He). simpl; auto.
    - rewrite (end_prop_id s He). simpl; auto.
    - destruct (calc_spec t s H S) as [A [B _]]. split; auto.
    - destruct (sds s) eqn:E; simpl; auto.
      destruct (v_eqb pos vzero); simpl; auto. destruct (v_eqb pos vone); simpl; auto.
      destruct (calc_spec t_def s H S) as [A [B _]]. split; [exact A|congruence].
    - destruct (v_eqb T vone); simpl; auto. destruct (v_eqb T vzero); simpl; auto.
      destruct (calc_spec t_def s H S) as [A [B _]]. split; [exact A|congruence].
    - destruct (segs s) eqn:E; simpl; auto. destruct use_closed_attrib; simpl; auto.
      destruct (iscontinuous pt_eqb (sds s)); simpl; auto.
      rewrite (start_prop_id s He). rewrite (end_prop_id s He). simpl; auto.
    - destruct (segs s); simpl; auto.
  Qed.

  Lemma segs_nil_sds : forall s : state, segs s = [] <-> sds s = [].
  Proof. intros s; unfold sds; destruct (segs s); simpl; split; intros; auto; discriminate. Qed.
  Lemma length_sds : forall s : state, length (segs s) = length (sds s).
  Proof. intros; unfold sds; rewrite map_length; reflexivity. Qed.


  Lemma hash_flag_same : forall s1 s2 : state, InvEnds s1 -> InvEnds s2 ->
      (if fx_hash fx then false else pclosed s1) = (if fx_hash fx then false else pclosed s2).
  Proof.
    intros s1 s2 [_ [_ A]] [_ [_ B]]. destruct (fx_hash fx); auto.
    destruct A as [A|A]; [discriminate|]. destruct B as [B|B]; [discriminate|]. congruence.
  Qed.

  (* two states that both satisfy the invariant and carry the same control
     data give the same answer to every (tolerance-compatible) query *)
  Lemma obs_determined : forall s1 s2 q, Inv s1 -> Inv s2 -> sds s1 = sds s2 ->
      safe_q q = true -> snd (obs s1 q) = snd (obs s2 q).
  Proof.
    intros s1 s2 q H1 H2 E S.
    pose proof H1 as [E1 _]. pose proof H2 as [E2 _].
    assert (Ps : pstart s1 = pstart s2).
    { destruct E1 as [A _], E2 as [B _]. rewrite A, B. apply first_start_same_sds. exact E. }
    assert (Pe : pend s1 = pend s2).
    { destruct E1 as [_ [A _]], E2 as [_ [B _]]. rewrite A, B. apply last_end_same_sds. exact E. }
    destruct q; simpl in *.
    - rewrite !length_sds, E. reflexivity.
    - rewrite (start_prop_id s1 E1), (start_prop_id s2 E2). simpl. congruence.
    - rewrite (end_prop_id s1 E1), (end_prop_id s2 E2). simpl. congruence.
    - destruct (calc_spec t s1 H1 S) as [_ [_ [A _]]]. destruct (calc_spec t s2 H2 S) as [_ [_ [B _]]].
      rewrite A, B, E. reflexivity.
    - rewrite <- E.
      destruct (sds s1) eqn:D; simpl; auto.
      destruct (v_eqb pos vzero); simpl; auto. destruct (v_eqb pos vone); simpl; auto.
      destruct (calc_spec t_def s1 H1 S) as [_ [A1 [_ [A2 _]]]].
      destruct (calc_spec t_def s2 H2 S) as [_ [B1 [_ [B2 _]]]].
      rewrite A1, B1, A2, B2, <- E, D. reflexivity.
    - rewrite !length_sds, E.
      destruct (v_eqb T vone); simpl; auto. destruct (v_eqb T vzero); simpl; auto.
      destruct (calc_spec t_def s1 H1 S) as [_ [A1 [_ [A2 _]]]].
      destruct (calc_spec t_def s2 H2 S) as [_ [B1 [_ [B2 _]]]].
      rewrite A2, B2, E. reflexivity.
    - rewrite E. reflexivity.
    - rewrite E, (hash_flag_same s1 s2 E1 E2). reflexivity.
    - destruct (segs s1) eqn:D1; destruct (segs s2) eqn:D2.
      + reflexivity.
      + apply segs_nil_sds in D1. rewrite E in D1. apply segs_nil_sds in D1. congruence.
      + apply segs_nil_sds in D2. rewrite <- E in D2. apply segs_nil_sds in D2. congruence.
      + destruct use_closed_attrib; simpl; [|rewrite E; reflexivity].
        rewrite <- E. destruct (iscontinuous pt_eqb (sds s1)); simpl; auto.
        rewrite (start_prop_id s1 E1), (start_prop_id s2 E2).
        rewrite (end_prop_id s1 E1), (end_prop_id s2 E2). simpl. rewrite Ps, Pe. reflexivity.
    - destruct (segs s1) eqn:D1; destruct (segs s2) eqn:D2; simpl.
      + reflexivity.
      + apply segs_nil_sds in D1. rewrite E in D1. apply segs_nil_sds in D1. congruence.
      + apply segs_nil_sds in D2. rewrite <- E in D2. apply segs_nil_sds in D2. congruence.
      + rewrite E. reflexivity.
  Qed.

  Lemma map_sd_clear : forall l : list seg, map sd (map clear_cache l) = map sd l.
  Proof. induction l; simpl; congruence. Qed.
  Lemma inv_fresh_of : forall (s : state), Inv (fresh_of s) /\ sds (fresh_of s) = sds s.
  Proof.
    intros s. split.
    - apply inv_fresh. apply Forall_forall. intros g Hin. apply in_map_iff in Hin.
      destruct Hin as [g0 [Hg _]]. subst. apply SegOK_clear.
    - unfold fresh_of, sds; simpl. apply map_sd_clear.
  Qed.
  Lemma inv_fresh_same : forall (s : state), Inv s -> Inv (fresh_same s).
  Proof. intros s H. apply inv_fresh. apply H. Qed.

  Theorem fresh_equiv : forall s q, Inv s -> safe_q q = true ->
      snd (obs s q) = snd (obs (fresh_of s) q).
  Proof.
    intros s q H S. destruct (inv_fresh_of s) as [A B].
    apply obs_determined; auto.
  Qed.
  Theorem fresh_same_equiv : forall s q, Inv s -> safe_q q = true ->
      snd (obs s q) = snd (obs (fresh_same s) q).
  Proof.
    intros s q H S. apply obs_determined; auto. apply inv_fresh_same; auto.
  Qed.

  (* ---------------------------------------------------------- histories *)
  Definition safe_ev (s : state) (e : event) : bool :=
    match e with EOp o => safe_op s o | EQ q => safe_q q end.
  Fixpoint safe_hist (s : state) (evs : list event) : bool :=
    match evs with
    | [] => true
    | e :: r => safe_ev s e && safe_hist (fst (step_ev s e)) r
    end.

  Lemma inv_step_ev : forall s e, Inv s -> safe_ev s e = true -> Inv (fst (step_ev s e)).
  Proof.
    intros s e H S. destruct e; simpl in *.
    - pose proof (inv_step s o H S). destruct (step s o); auto.
    - pose proof (inv_obs s q H S) as [A _]. destruct (obs s q); auto.
  Qed.
  Theorem reachable : forall evs s, Inv s -> safe_hist s evs = true -> Inv (run s evs).
  Proof.
    induction evs; intros s H S; simpl in *; auto.
    apply andb_true_iff in S. destruct S as [S1 S2].
    apply IHevs; auto. apply inv_step_ev; auto.
  Qed.
  Theorem history_fresh_equiv : forall l evs q,
      forallb no_cache l = true -> safe_hist (fresh l) evs = true -> safe_q q = true ->
      snd (obs (run (fresh l) evs) q) = snd (obs (fresh_of (run (fresh l) evs)) q).
  Proof.
    intros. apply fresh_equiv; auto. apply reachable; auto.
    apply inv_fresh. apply forallb_no_cache; auto.
  Qed.

  (* histories whose only restrictions are the ones that no repair removes:
     inserted segments are fresh objects, setters are applied to a non-empty path *)
  Definition safe_ev_repaired (s : state) (e : event) : bool :=
    match e with EOp o => safe_op_repaired s o | EQ q => safe_q q end.
  Fixpoint safe_hist_repaired (s : state) (evs : list event) : bool :=
    match evs with
    | [] => true
    | e :: r => safe_ev_repaired s e && safe_hist_repaired (fst (step_ev s e)) r
    end.
  Lemma safe_hist_repaired_safe : fx_setter fx = true -> fx_slice fx = true ->
      forall evs s, safe_hist_repaired s evs = true -> safe_hist s evs = true.
  Proof.
    intros F1 F2. induction evs; intros s H; simpl in *; auto.
    apply andb_true_iff in H. destruct H as [H1 H2]. rewrite (IHevs _ H2), andb_true_r.
    destruct a; simpl in *; auto. apply safe_op_repaired_safe; auto.
  Qed.

  (* ------------------------------------------------------------------
     The weaker invariant InvEnds (start / end / _closed coherent) survives
     the start / end setters, mixed tolerances and cached segments: every
     query that does not read _length/_lengths is fresh-equivalent after any
     history that avoids only (unless repaired) `path[a:b] = []` emptying the
     path, and a setter applied to an empty path. *)
  Lemma after_set_ends : forall s l, InvEnds s -> l <> [] \/ fx_slice fx = true -> InvEnds (fst (after_set s l)).
  Proof.
    intros s l [_ [_ Hc]] Hne. unfold PathCache.after_set. destruct (first_start l) eqn:E.
    - repeat split; simpl; auto.
    - apply first_start_none in E. destruct Hne as [N|F]; [contradiction|].
      rewrite F. subst l. repeat split; simpl; auto.
  Qed.
  Lemma after_del_ends : forall s l, InvEnds s -> InvEnds (after_del s l).
  Proof. intros s l [_ [_ Hc]]. repeat split; simpl; auto. Qed.
  Lemma setitem_ends : forall s i g, InvEnds s -> InvEnds (fst (setitem s i g)).
  Proof.
    intros s i g H. unfold PathCache.setitem. destruct (norm_index (length (segs s)) i) eqn:E; simpl; auto.
    apply after_set_ends; auto. left. apply set_nth_nonempty. eapply norm_index_lt; eauto.
  Qed.
  Lemma delitem_ends : forall s i, InvEnds s -> InvEnds (fst (delitem s i)).
  Proof.
    intros s i H. unfold delitem. destruct (norm_index (length (segs s)) i); simpl; auto.
    apply after_del_ends; auto.
  Qed.
  Lemma insert_ends : forall s i g, InvEnds s -> InvEnds (fst (insert s i g)).
  Proof. intros s i g H. unfold PathCache.insert. apply after_set_ends; auto. left. apply splice_ins_nonempty. Qed.
  Lemma extend_ends : forall gs s, InvEnds s -> InvEnds (fst (extend s gs)).
  Proof.
    induction gs; intros s H; simpl; auto.
    pose proof (insert_ends s (Z.of_nat (length (segs s))) a H) as Hi.
    unfold PathCache.append. destruct (insert s (Z.of_nat (length (segs s))) a) as [s' r]; simpl in *.
    destruct r; simpl; auto.
  Qed.
  Lemma reverse_ends : forall s, InvEnds s -> InvEnds (fst (reverse s)).
  Proof.
    intros s H. unfold PathCache.reverse.
    generalize (seq 0 (Nat.div (length (segs s)) 2)). generalize (length (segs s)) as n.
    intros n l. assert (G : InvEnds (fst (s, @ROk pt pay))) by exact H.
    revert G. generalize (s, @ROk pt pay) as acc. induction l; intros acc G; simpl; auto.
    apply IHl. destruct acc as [s0 r0]; simpl in *. destruct r0; simpl; auto.
    destruct (nth_error (segs s0) (n - a - 1)) eqn:E1; simpl; auto.
    destruct (nth_error (segs s0) a) eqn:E2; simpl; auto.
    pose proof (setitem_ends s0 (Z.of_nat a) s1 G) as G1.
    destruct (setitem s0 (Z.of_nat a) s1) as [s' r']; simpl in *.
    destruct r'; simpl; auto. apply setitem_ends; auto.
  Qed.

  Lemma ends_step : forall s o, InvEnds s -> safe_op_ends s o = true -> InvEnds (fst (step s o)).
  Proof.
    intros s o H S. destruct o; simpl in *.
    - apply setitem_ends; auto.
    - unfold PathCache.setslice, slice_bounds. apply after_set_ends; auto.
      destruct (fx_slice fx); [right; reflexivity|left]. simpl in S.
      match type of S with negb (is_nil ?l) = true => destruct l end; [discriminate S|discriminate].
    - apply insert_ends; auto.
    - apply insert_ends; auto.
    - apply extend_ends; auto.
    - apply delitem_ends; auto.
    - unfold delslice. destruct (slice_bounds (length (segs s)) a b) as [lo hi]. simpl.
      apply after_del_ends; auto.
    - unfold pop. destruct (norm_index (length (segs s)) i) eqn:E; simpl; auto.
      destruct (nth_error (segs s) n); simpl; auto.
      pose proof (delitem_ends s i H) as Hd.
      destruct (delitem s i) as [s' r]; simpl in *. destruct r; simpl; auto.
    - apply reverse_ends; auto.
    - unfold remove. destruct (index_of pt_eqb pay_eqb (sd g) (segs s) 0); simpl; auto.
      apply delitem_ends; auto.
    - destruct H as [Hs [He Hc]].
      destruct (segs s) as [|g r] eqn:E; [discriminate|].
      repeat split; simpl; auto.
      rewrite He. symmetry. apply last_end_cons_with_start.
    - destruct H as [Hs [He Hc]].
      assert (Hne : segs s <> []) by (destruct (segs s); [discriminate|discriminate]).
      repeat split; simpl; auto.
      + rewrite Hs. symmetry. apply map_last_first_start'.
      + symmetry. apply map_last_last_end; auto.
  Qed.

  Lemma ends_obs : forall s q, InvEnds s -> InvEnds (fst (obs s q)) /\ sds (fst (obs s q)) = sds s.
  Proof.
    intros s q He. destruct q; simpl in *; auto.
    - rewrite (start_prop_id s He). simpl; auto.
    - rewrite (end_prop_id s He). simpl; auto.
    - split; [apply InvEnds_calc; auto|apply calc_sds].
    - destruct (sds s) eqn:E; simpl; auto.
      destruct (v_eqb pos vzero); simpl; auto. destruct (v_eqb pos vone); simpl; auto.
      split; [apply InvEnds_calc; auto|rewrite calc_sds; congruence].
    - destruct (v_eqb T vone); simpl; auto. destruct (v_eqb T vzero); simpl; auto.
      split; [apply InvEnds_calc; auto|apply calc_sds].
    - destruct (segs s) eqn:E; simpl; auto. destruct use_closed_attrib; simpl; auto.
      destruct (iscontinuous pt_eqb (sds s)); simpl; auto.
      rewrite (start_prop_id s He). rewrite (end_prop_id s He). simpl; auto.
    - destruct (segs s); simpl; auto.
  Qed.

  (* the queries that never read _length / _lengths *)
  Definition ends_q (q : query) : bool :=
    match q with
    | QLength _ | QPoint _ | QT2t _ => false
    | _ => true
    end.

  Lemma ends_determined : forall s1 s2 q, InvEnds s1 -> InvEnds s2 -> sds s1 = sds s2 ->
      ends_q q = true -> snd (obs s1 q) = snd (obs s2 q).
  Proof.
    intros s1 s2 q E1 E2 E S.
    assert (Ps : pstart s1 = pstart s2).
    { destruct E1 as [A _], E2 as [B _]. rewrite A, B. apply first_start_same_sds. exact E. }
    assert (Pe : pend s1 = pend s2).
    { destruct E1 as [_ [A _]], E2 as [_ [B _]]. rewrite A, B. apply last_end_same_sds. exact E. }
    destruct q; simpl in *; try discriminate.
    - rewrite !length_sds, E. reflexivity.
    - rewrite (start_prop_id s1 E1), (start_prop_id s2 E2). simpl. congruence.
    - rewrite (end_prop_id s1 E1), (end_prop_id s2 E2). simpl. congruence.
    - rewrite E. reflexivity.
    - rewrite E, (hash_flag_same s1 s2 E1 E2). reflexivity.
    - destruct (segs s1) eqn:D1; destruct (segs s2) eqn:D2.
      + reflexivity.
      + apply segs_nil_sds in D1. rewrite E in D1. apply segs_nil_sds in D1. congruence.
      + apply segs_nil_sds in D2. rewrite <- E in D2. apply segs_nil_sds in D2. congruence.
      + destruct use_closed_attrib; simpl; [|rewrite E; reflexivity].
        rewrite <- E. destruct (iscontinuous pt_eqb (sds s1)); simpl; auto.
        rewrite (start_prop_id s1 E1), (start_prop_id s2 E2).
        rewrite (end_prop_id s1 E1), (end_prop_id s2 E2). simpl. rewrite Ps, Pe. reflexivity.
    - destruct (segs s1) eqn:D1; destruct (segs s2) eqn:D2; simpl.
      + reflexivity.
      + apply segs_nil_sds in D1. rewrite E in D1. apply segs_nil_sds in D1. congruence.
      + apply segs_nil_sds in D2. rewrite <- E in D2. apply segs_nil_sds in D2. congruence.
      + rewrite E. reflexivity.
  Qed.

  Lemma ends_fresh : forall l : list seg, InvEnds (fresh l).
  Proof. intros; repeat split; simpl; auto. Qed.
  Lemma ends_fresh_closed : forall (l : list seg) c, fx_hash fx = true \/ c = false -> InvEnds (fresh_closed l c).
  Proof. intros; repeat split; simpl; auto. Qed.
  Lemma ends_fresh_of : forall s : state, InvEnds (fresh_of s) /\ sds (fresh_of s) = sds s.
  Proof. intros s. split; [apply ends_fresh|]. unfold fresh_of, sds; simpl. apply map_sd_clear. Qed.

  Theorem ends_fresh_equiv : forall s q, InvEnds s -> ends_q q = true ->
      snd (obs s q) = snd (obs (fresh_of s) q).
  Proof.
    intros s q H S. destruct (ends_fresh_of s) as [A B]. apply ends_determined; auto.
  Qed.

  Definition safe_ev_ends (s : state) (e : event) : bool :=
    match e with EOp o => safe_op_ends s o | EQ _ => true end.
  Fixpoint safe_hist_ends (s : state) (evs : list event) : bool :=
    match evs with
    | [] => true
    | e :: r => safe_ev_ends s e && safe_hist_ends (fst (step_ev s e)) r
    end.
  Theorem ends_reachable : forall evs s, InvEnds s -> safe_hist_ends s evs = true -> InvEnds (run s evs).
  Proof.
    induction evs; intros s H S; simpl in *; auto.
    apply andb_true_iff in S. destruct S as [S1 S2]. apply IHevs; auto.
    destruct a; simpl in *.
    - pose proof (ends_step s o H S1). destruct (step s o); auto.
    - pose proof (ends_obs s q H) as [A _]. destruct (obs s q); auto.
  Qed.

  (* a syntactic sufficient condition, independent of the state: no setter, no
     slice assignment of an empty list (unless repaired), inserted segments are
     fresh, tolerances in T *)
  Definition avoids_op (o : op) : bool :=
    op_args_fresh o &&
    match o with
    | SetSlice _ _ [] => fx_slice fx
    | SetStart _ | SetEnd _ => false
    | _ => true
    end.
  Definition avoids (e : event) : bool :=
    match e with EOp o => avoids_op o | EQ q => safe_q q end.
  Lemma splice_ins_not_nil : forall lo hi (g : seg) ins l,
      negb (is_nil (splice lo hi (g :: ins) l)) = true.
  Proof.
    intros. pose proof (splice_ins_nonempty lo hi g ins l) as N.
    destruct (splice lo hi (g :: ins) l); [exfalso; apply N; reflexivity|reflexivity].
  Qed.
  Lemma avoids_safe : forall s e, avoids e = true -> safe_ev s e = true.
  Proof.
    intros s e H. destruct e; simpl in *; auto.
    unfold avoids_op in H. unfold safe_op. apply andb_true_iff in H. destruct H as [H1 H2].
    rewrite H1. simpl. destruct o; auto; try discriminate.
    unfold slice_bounds. destruct gs.
    - rewrite H2. reflexivity.
    - rewrite splice_ins_not_nil. apply orb_true_r.
  Qed.
  Lemma avoids_hist : forall evs s, forallb avoids evs = true -> safe_hist s evs = true.
  Proof.
    induction evs; intros s H; simpl in *; auto.
    apply andb_true_iff in H. destruct H as [H1 H2]. rewrite (avoids_safe s a H1). simpl. auto.
  Qed.
  Theorem history_fresh_equiv_syntactic : forall l evs q,
      forallb no_cache l = true -> forallb avoids evs = true -> safe_q q = true ->
      snd (obs (run (fresh l) evs) q) = snd (obs (fresh_of (run (fresh l) evs)) q).
  Proof. intros. apply history_fresh_equiv; auto. apply avoids_hist; auto. Qed.

  (* ---- per-repair statements: the operation is never excluded *)
  Lemma nonempty_not_nil : forall l : list seg, l <> [] -> negb (is_nil l) = true.
  Proof. destruct l; [contradiction|reflexivity]. Qed.
  Theorem inv_setter_repaired : fx_setter fx = true ->
      forall s z, Inv s -> segs s <> [] ->
      Inv (fst (step s (SetStart z))) /\ Inv (fst (step s (SetEnd z))).
  Proof.
    intros F s z H N. split; apply inv_step; auto; unfold safe_op; simpl;
      rewrite (nonempty_not_nil _ N), F; reflexivity.
  Qed.
  Theorem inv_setslice_repaired : fx_slice fx = true ->
      forall s a b gs, Inv s -> forallb no_cache gs = true -> Inv (fst (step s (SetSlice a b gs))).
  Proof.
    intros F s a b gs H G. apply inv_step; auto. unfold safe_op; simpl. rewrite G. simpl.
    destruct (slice_bounds (length (segs s)) a b). rewrite F. reflexivity.
  Qed.
  Theorem hash_repaired : fx_hash fx = true ->
      forall (l : list seg) c, snd (obs (fresh_closed l c) QHash) = snd (obs (fresh l) QHash).
  Proof. intros F l c. simpl. rewrite F. reflexivity. Qed.
  Theorem history_fresh_equiv_repaired : fx_setter fx = true -> fx_slice fx = true ->
      forall l evs q, forallb no_cache l = true -> safe_hist_repaired (fresh l) evs = true -> safe_q q = true ->
      snd (obs (run (fresh l) evs) q) = snd (obs (fresh_of (run (fresh l) evs)) q).
  Proof. intros F1 F2 l evs q A B C. apply history_fresh_equiv; auto. apply safe_hist_repaired_safe; auto. Qed.
End Proofs.

(* the two tolerance disciplines *)
Section Disciplines.
  Context {tol V D : Type}.
  Variable tol_eqb : tol -> tol -> bool.
  Hypothesis tol_eqb_eq : forall a b, tol_eqb a b = true -> a = b.
  (* one tolerance t0 throughout *)
  Definition Tb_one (t0 t : tol) : bool := tol_eqb t t0.
  Lemma single_one : forall t0, Single (Tb_one t0).
  Proof.
    intros t0 a b A B. unfold Tb_one in *. apply tol_eqb_eq in A. apply tol_eqb_eq in B. congruence.
  Qed.
  Lemma reuse_ok_one : forall t0 (tol_reuse : tol -> tol -> bool) (len_of : D -> tol -> V) c t d,
      Tb_one t0 c = true -> Tb_one t0 t = true -> tol_reuse c t = true -> len_of d c = len_of d t.
  Proof. intros t0 r len_of c t d A B _. rewrite (single_one t0 c t A B). reflexivity. Qed.
  (* any tolerances *)
  Definition Tb_any (t : tol) : bool := true.
End Disciplines.
