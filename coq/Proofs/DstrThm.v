(* Proofs/DstrThm.v — the statements of C01, assembled from
   Proofs/DstrLoop.v (round trip up to `==` on joins), Proofs/DstrShape.v
   (kinds and flags, any carrier), Proofs/DstrText.v (characters), and the
   refinement theorem of C02 (the d-string MEANS the path, per SVG 1.1 §8.3). *)
From Coq Require Import Ascii List Bool Arith Lia.
From SVP Require Import Base.Num Base.Cplx Model.Parse Model.Lexer Model.Dstr Model.DstrText
     Proofs.ParseRefine Proofs.LexerRender Proofs.DstrRun Proofs.DstrLaws Proofs.DstrSim
     Proofs.DstrLoop Proofs.DstrShape Proofs.DstrText.
Import ListNotations.

Section Thm.
  Context {K : Type} (N : Num K).
  Notation pt := (Cplx K).
  Notation eqv a b := (ceqb N a b = true).

  (* ---------------------------------------------------------------- *)
  (* from "equal up to == on the joins" to "compares equal" / "equal"  *)

  Lemma sim_eqb (E : EqbOK N) : forall q p,
    Forall2 (seg_sim N) q p -> forallb (seg_fin N) p = true -> segs_eqb N q p = true.
  Proof.
    induction 1 as [|a b q p H _ IH]; intros F; [reflexivity|].
    cbn [forallb] in F. apply andb_true_iff in F. destruct F as [Fb Fp].
    cbn [segs_eqb]. rewrite (IH Fp), andb_true_r.
    destruct a, b; cbn [seg_sim] in H; try (exfalso; exact H); cbn [seg_eqb seg_fin] in *; unfold pfin in *.
    - destruct H as [H1 H2]. rewrite H1, H2. reflexivity.
    - destruct H as (H1 & H2 & ->).
      apply andb_true_iff in Fb. destruct Fb as [_ Fe]. rewrite H1, H2, Fe. reflexivity.
    - destruct H as (H1 & H2 & -> & ->).
      apply andb_true_iff in Fb. destruct Fb as [Fb Fe]. apply andb_true_iff in Fb. destruct Fb as [_ Fc].
      rewrite H1, H2, Fc, Fe. reflexivity.
    - destruct H as (H1 & -> & -> & -> & -> & ->).
      apply andb_true_iff in Fb. destruct Fb as [Fb Fe]. apply andb_true_iff in Fb. destruct Fb as [Fb Fr].
      apply andb_true_iff in Fb. destruct Fb as [_ Fc].
      rewrite H1, Fc, Fr, Fe, !Bool.eqb_reflx. reflexivity.
  Qed.

  Lemma sim_eq (X : LeibnizOK N) : forall q p, Forall2 (seg_sim N) q p -> q = p.
  Proof.
    induction 1 as [|a b q p H _ IH]; [reflexivity|]. f_equal; [|exact IH].
    destruct a, b; cbn [seg_sim] in H; try (exfalso; exact H).
    - destruct H as [H1 H2]. apply (ceqb_eq N X) in H1, H2. congruence.
    - destruct H as (H1 & H2 & ->). apply (ceqb_eq N X) in H1, H2. congruence.
    - destruct H as (H1 & H2 & -> & ->). apply (ceqb_eq N X) in H1, H2. congruence.
    - destruct H as (H1 & -> & -> & -> & -> & ->). apply (ceqb_eq N X) in H1. congruence.
  Qed.

  Lemma wf_fin p : path_wf N p = true -> forallb (seg_fin N) p = true.
  Proof.
    unfold path_wf. intros H. apply andb_true_iff in H. destruct H as [_ H].
    induction p as [|g r IH]; [reflexivity|]. cbn [forallb] in *.
    apply andb_true_iff in H. destruct H as [Hg Hr]. rewrite (IH Hr), andb_true_r.
    unfold seg_wf in Hg. apply andb_true_iff in Hg. apply Hg.
  Qed.

  (* ---------------------------------------------------------------- *)
  (* when the side condition on S/T after a re-emitted 'M' is void     *)

  Lemma shorthand_noST sfix prev g : shorthand N false sfix prev g = false.
  Proof. destruct g; reflexivity. Qed.
  Lemma reemit_noST sfix sc endp : forall segs pos prev,
    reemit_ok N sfix false sc endp pos prev segs = true.
  Proof.
    induction segs as [|g r IH]; intros pos prev; [reflexivity|].
    cbn [reemit_ok]. rewrite IH, andb_true_r. unfold reemit_head.
    rewrite !shorthand_noST. destruct (need_move N sc endp pos (seg_start g)); reflexivity.
  Qed.

  (* without use_closed_attrib an 'M' is only written where the path jumps,
     and there is_smooth_from answers as if there were no previous segment *)
  Lemma reemit_open (E : EqbOK N) sfix useST endp : forall segs prev,
    reemit_ok N sfix useST false endp (option_map (@seg_end K) prev) prev segs = true.
  Proof.
    induction segs as [|g r IH]; intros prev; [reflexivity|].
    cbn [reemit_ok]. pose proof (IH (Some g)) as IHg. cbn [option_map] in IHg.
    rewrite IHg, andb_true_r. unfold reemit_head, need_move.
    cbn [andb]. rewrite orb_false_r.
    destruct prev as [gp|]; cbn [option_map].
    - destruct (ceqb N (seg_end gp) (seg_start g)) eqn:C; [reflexivity|]. cbn [negb].
      assert (C' : ceqb N (seg_start g) (seg_end gp) = false).
      { destruct (ceqb N (seg_start g) (seg_end gp)) eqn:C'; [|reflexivity].
        rewrite (ceqb_sym N E _ _ C') in C. discriminate. }
      destruct g as [s e|s c e|s c1 c2 e|s r0 rot la sw e]; try reflexivity;
        cbn [shorthand seg_start] in *; destruct useST; try reflexivity; cbn [andb];
        destruct gp; cbn [quad_smooth cubic_smooth seg_end] in *;
        try rewrite C'; cbn [andb implb];
        match goal with |- implb ?x ?x = true => destruct x; reflexivity | _ => reflexivity end.
    - destruct (shorthand N useST sfix None g); reflexivity.
  Qed.

  Lemma closing_open zfix p : closing_ok N zfix false p.
  Proof. destruct p; [exact I|]. right. intros H. discriminate H. Qed.
  Lemma restart_open (E : EqbOK N) sfix mfix useST zfix p : restart_ok N sfix mfix useST zfix false p.
  Proof.
    destruct p as [|a r]; [exact I|]. right. cbn [d_segments]. unfold drops_last, self_closed_of.
    cbn [andb]. exact (reemit_open E sfix useST _ (a :: r) None).
  Qed.
  Lemma restart_noST sfix mfix zfix closeZ p : restart_ok N sfix mfix false zfix closeZ p.
  Proof. destruct p; [exact I|]. right. apply reemit_noST. Qed.
  Lemma restart_mfix sfix useST zfix closeZ p : restart_ok N sfix true useST zfix closeZ p.
  Proof. destruct p; [exact I|]. left. reflexivity. Qed.
  Lemma closing_zfix closeZ p : closing_ok N true closeZ p.
  Proof. destruct p; [exact I|]. left. reflexivity. Qed.

  (* ---------------------------------------------------------------- *)
  (* the general statement and its readings                            *)

  Section Variants.
  Variables none_ok coinc_ok : bool.    (* which parser (C02): immaterial *)
  Variables zfix sfix mfix : bool.      (* which serialiser *)
  Notation rt := (roundtrip N none_ok coinc_ok zfix sfix mfix).

  (* all eight option sets, every variant *)
  Theorem roundtrip_general (E : EqbOK N) useST closeZ rel p :
    (rel = false \/ ExactOK N) ->
    (useST = false \/ (sfix = true /\ SubCongOK N) \/ (LeibnizOK N /\ ReflectOK N)) ->
    path_wf N p = true -> closing_ok N zfix closeZ p -> restart_ok N sfix mfix useST zfix closeZ p ->
    exists q, rt useST closeZ rel p = Ok q /\ segs_eqb N q p = true.
  Proof.
    intros HR HS W HZ HM.
    destruct (roundtrip_sim N E none_ok coinc_ok sfix mfix useST rel HR HS zfix closeZ p W HZ HM)
      as (q & R & S).
    exists q. split; [exact R|]. apply (sim_eqb E); [exact S|apply wf_fin; exact W].
  Qed.

  (* absolute, no shorthands, no 'Z': pure data movement *)
  Theorem abs_noST (E : EqbOK N) p :
    path_wf N p = true ->
    exists q, rt false false false p = Ok q /\ segs_eqb N q p = true.
  Proof.
    intros W. apply (roundtrip_general E); auto.
    - apply closing_open.
    - apply restart_noST.
  Qed.

  (* absolute, shorthands, with the test of the parser's own expression *)
  Theorem abs_ST_fixed (E : EqbOK N) (Sc : SubCongOK N) useST p :
    sfix = true -> path_wf N p = true ->
    exists q, rt useST false false p = Ok q /\ segs_eqb N q p = true.
  Proof.
    intros F W. apply (roundtrip_general E); auto.
    - apply closing_open.
    - apply restart_open; exact E.
  Qed.

  (* absolute, shorthands, the test as written: needs the reflection law *)
  Theorem abs_ST (X : LeibnizOK N) (Rf : ReflectOK N) useST p :
    path_wf N p = true -> rt useST false false p = Ok p.
  Proof.
    intros W. pose proof (leibniz_eqb_ok N X) as E.
    destruct (roundtrip_sim N E none_ok coinc_ok sfix mfix useST false (or_introl eq_refl)
                (or_intror (or_intror (conj X Rf))) zfix false p W (closing_open zfix p)
                (restart_open E sfix mfix useST zfix p)) as (q & R & S).
    rewrite R. f_equal. apply (sim_eq X). exact S.
  Qed.

  (* ... over a carrier whose `==` is Leibniz equality: the very same path *)
  Theorem abs_noST_leibniz (X : LeibnizOK N) p :
    path_wf N p = true -> rt false false false p = Ok p.
  Proof.
    intros W. pose proof (leibniz_eqb_ok N X) as E.
    destruct (roundtrip_sim N E none_ok coinc_ok sfix mfix false false (or_introl eq_refl)
                (or_introl eq_refl) zfix false p W (closing_open zfix p)
                (restart_noST sfix mfix zfix false p)) as (q & R & S).
    rewrite R. f_equal. apply (sim_eq X). exact S.
  Qed.

  (* use_closed_attrib: the code as written, when the closing segment is a Line *)
  Theorem closeZ_partial (E : EqbOK N) useST p :
    (useST = false \/ (sfix = true /\ SubCongOK N) \/ (LeibnizOK N /\ ReflectOK N)) ->
    path_wf N p = true -> closing_ok N zfix true p -> restart_ok N sfix mfix useST zfix true p ->
    exists q, rt useST true false p = Ok q /\ segs_eqb N q p = true.
  Proof. intros HS W HZ HM. apply (roundtrip_general E); auto. Qed.

  (* every option set over an exact carrier *)
  Theorem rel_exact (X : ExactOK N) (Rf : ReflectOK N) useST closeZ rel p :
    path_wf N p = true -> closing_ok N zfix closeZ p -> restart_ok N sfix mfix useST zfix closeZ p ->
    rt useST closeZ rel p = Ok p.
  Proof.
    intros W HZ HM. pose proof (exact_eqb_ok N X) as E.
    destruct (roundtrip_sim N E none_ok coinc_ok sfix mfix useST rel (or_intror X)
                (or_intror (or_intror (conj (ex_lz N X) Rf))) zfix closeZ p W HZ HM) as (q & R & S).
    rewrite R. f_equal. apply (sim_eq (ex_lz N X)). exact S.
  Qed.
  End Variants.

  (* the three repairs together: nothing left to assume *)
  Theorem fixed_all (E : EqbOK N) (Sc : SubCongOK N) none_ok coinc_ok useST closeZ p :
    path_wf N p = true ->
    exists q, roundtrip N none_ok coinc_ok true true true useST closeZ false p = Ok q
              /\ segs_eqb N q p = true.
  Proof.
    intros W. apply (roundtrip_general none_ok coinc_ok true true true E); auto.
    - apply closing_zfix.
    - apply restart_mfix.
  Qed.
  Theorem fixed_all_exact (X : ExactOK N) (Rf : ReflectOK N) none_ok coinc_ok useST closeZ rel p :
    path_wf N p = true ->
    roundtrip N none_ok coinc_ok true true true useST closeZ rel p = Ok p.
  Proof.
    intros W. apply rel_exact; auto.
    - apply closing_zfix.
    - apply restart_mfix.
  Qed.

  (* ---------------------------------------------------------------- *)
  (* what Path.d writes is grammatical, one argument group per command *)

  Lemma d_cmds_single zfix sfix mfix useST closeZ rel p :
    forallb single (d_cmds N zfix sfix mfix useST closeZ rel p) = true.
  Proof.
    destruct p as [|a r]; [reflexivity|]. cbn [d_cmds]. rewrite forallb_app, d_loop_single.
    destruct (self_closed_of N closeZ a r); reflexivity.
  Qed.
  Lemma single_wf (c : command K) : single c = true -> cmd_wf c = true.
  Proof.
    destruct c as [ab [|? [|]]|ab [|? [|]]|ab [|? [|]]|ab [|? [|]]|ab [|? [|]]
                  |ab [|? [|]]|ab [|? [|]]|ab [|? [|]]|ab [|? [|]]|up]; intros H;
      try discriminate H; reflexivity.
  Qed.
  Lemma d_cmds_grammatical zfix sfix mfix useST closeZ rel p :
    d_segments N zfix closeZ p <> [] ->
    grammatical (d_cmds N zfix sfix mfix useST closeZ rel p) = true.
  Proof.
    intros NE. unfold grammatical. apply andb_true_iff. split.
    - destruct p as [|a r]; [destruct (NE eq_refl)|]. cbn [d_cmds].
      destruct (d_segments N zfix closeZ (a :: r)) as [|g more]; [destruct (NE eq_refl)|].
      reflexivity.
    - pose proof (d_cmds_single zfix sfix mfix useST closeZ rel p) as S.
      rewrite forallb_forall in *. intros c Hc. apply single_wf, S, Hc.
  Qed.

  Lemma segments_nonempty (E : EqbOK N) zfix closeZ p :
    path_wf N p = true -> closing_ok N zfix closeZ p -> d_segments N zfix closeZ p <> [].
  Proof.
    intros W HZ. unfold path_wf in W. apply andb_true_iff in W. destruct W as [NE W].
    destruct p as [|a r]; [discriminate|]. cbn [d_segments closing_ok] in *.
    destruct (drops_last N zfix closeZ a r) eqn:Dr; [|discriminate].
    destruct r as [|b r]; [|cbn; discriminate].
    exfalso. unfold drops_last in Dr. apply andb_true_iff in Dr. destruct Dr as [Sc Dz].
    destruct HZ as [->|HZ]; [cbn in Dz; rewrite andb_false_r in Dz; discriminate|].
    specialize (HZ Sc). unfold last_seg in HZ. cbn [last] in HZ.
    unfold self_closed_of in Sc. apply andb_true_iff in Sc. destruct Sc as [_ Cl].
    unfold isclosed, last_seg in Cl. cbn [last] in Cl.
    cbn [forallb] in W. apply andb_true_iff in W. destruct W as [Wa _].
    destruct a; try discriminate HZ. unfold seg_wf in Wa. apply andb_true_iff in Wa.
    destruct Wa as [_ Wa]. cbn [seg_start seg_end] in Cl. rewrite Cl in Wa. discriminate.
  Qed.

  (* the d-string MEANS the path: the reference interpreter of SVG 1.1 §8.3
     (Model/Parse.v, spec_run; tied to the parser by C02's refinement theorem)
     reads p back from the commands Path.d writes *)
  Theorem spec_meaning (L : ParseLawsOK N) (X : ExactOK N) (Rf : ReflectOK N)
          zfix sfix mfix useST closeZ rel p :
    path_wf N p = true -> closing_ok N zfix closeZ p -> restart_ok N sfix mfix useST zfix closeZ p ->
    spec_run N (c0 N) (d_cmds N zfix sfix mfix useST closeZ rel p) = p.
  Proof.
    intros W HZ HM.
    pose proof (rel_exact true true zfix sfix mfix X Rf useST closeZ rel p W HZ HM) as R.
    unfold roundtrip, d_tokens in R.
    rewrite (refines_general N L true true (c0 N)) in R.
    - injection R as R. exact R.
    - apply d_cmds_grammatical, (segments_nonempty (exact_eqb_ok N X)); assumption.
    - left; reflexivity.
    - left; reflexivity.
  Qed.

  (* kinds, order and arc flags, any carrier; without use_closed_attrib
     nothing is dropped and nothing added *)
  Theorem shape_open (F1 : eqb N (one N) (zero N) = false) (F0 : eqb N (zero N) (zero N) = true)
          none_ok coinc_ok zfix sfix mfix useST rel p :
    p <> [] -> forallb (radii_ok N) p = true -> no_arc_collapse N rel zfix false p = true ->
    exists q, roundtrip N none_ok coinc_ok zfix sfix mfix useST false rel p = Ok q
              /\ map shape_of q = map shape_of p.
  Proof.
    intros NE W A.
    assert (D : d_segments N zfix false p = p) by (destruct p; reflexivity).
    destruct (roundtrip_shape N F1 F0 none_ok coinc_ok sfix mfix useST rel zfix false p W)
      as (q & cl & R & Sh & C); [rewrite D; exact NE|exact A|].
    exists q. split; [exact R|]. rewrite D in Sh.
    destruct C as [->|[_ C]]; [rewrite app_nil_r in Sh; exact Sh|discriminate C].
  Qed.

  (* ---------------------------------------------------------------- *)
  (* the characters                                                    *)

  Theorem text_tokens (fmt : K -> numeral) (unfmt : list ascii -> K)
          zfix sfix mfix useST closeZ rel p :
    unfmt ["1"%char] = one N -> unfmt ["0"%char] = zero N ->
    Forall (cmd_printable fmt unfmt) (d_cmds N zfix sfix mfix useST closeZ rel p) ->
    lexK unfmt (d_text N (fun x => ntext (fmt x)) zfix sfix mfix useST closeZ rel p)
    = d_tokens N zfix sfix mfix useST closeZ rel p.
  Proof.
    intros U1 U0 P. unfold d_text, d_tokens.
    apply (lex_cmds_text N fmt unfmt U1 U0); [apply d_cmds_single|exact P].
  Qed.

  Theorem text_roundtrip (fmt : K -> numeral) (unfmt : list ascii -> K)
          none_ok coinc_ok zfix sfix mfix useST closeZ rel p :
    unfmt ["1"%char] = one N -> unfmt ["0"%char] = zero N ->
    Forall (cmd_printable fmt unfmt) (d_cmds N zfix sfix mfix useST closeZ rel p) ->
    roundtrip_text N (fun x => ntext (fmt x)) unfmt none_ok coinc_ok zfix sfix mfix useST closeZ rel p
    = roundtrip N none_ok coinc_ok zfix sfix mfix useST closeZ rel p.
  Proof.
    intros U1 U0 P. unfold roundtrip_text, roundtrip. rewrite text_tokens by assumption. reflexivity.
  Qed.
End Thm.
