(* Proofs/PathIdxGen.v — structural facts about the T2t / point search that hold
   for ANY carrier (no algebraic law is used unless stated as a hypothesis, so
   they hold for binary64 verbatim): index range; the repaired search
   (fb = true) never raises BugException and agrees with the unrepaired one
   wherever that returns; the clamped quotient (cl = true) is never above 1;
   and, under two comparison laws that IEEE arithmetic satisfies (proved for
   PrimFloat in Proofs/PathIdxFloatLaws.v and for R here), the repaired T2t
   is total on [0,1] with no ZeroDivisionError either. *)
From Coq Require Import ZArith List Bool Arith Lia.
From SVP Require Import Base.Num Model.PathIdx.
Import ListNotations.

Section Gen.
  Context {K : Type} (N : Num K).

  Lemma T2t_loop_range : forall cl fs k T0 T k' t,
    T2t_loop N cl fs k T0 T = Found k' t -> (k <= k' < k + Z.of_nat (length fs))%Z.
  Proof.
    intros cl. induction fs as [|[ex l] r IH]; intros k T0 T k' t E; cbn [T2t_loop] in E; [discriminate|].
    destruct (leb N T (add N T0 l)).
    - destruct (ex && eqb N l (zero N)); [discriminate|]. injection E as <- _.
      cbn [length]. lia.
    - apply IH in E. cbn [length]. lia.
  Qed.
  Lemma point_loop_range : forall fs k s T k' t,
    point_loop N fs k s T = Found k' t -> (k <= k' < k + Z.of_nat (length fs))%Z.
  Proof.
    induction fs as [|[ex l] r IH]; intros k s T k' t E; cbn [point_loop] in E; [discriminate|].
    destruct (leb N T (add N s l)).
    - cbv zeta in E. destruct (ex && eqb N (sub N (add N s l) s) (zero N)); [discriminate|].
      injection E as <- _. cbn [length]. lia.
    - apply IH in E. cbn [length]. lia.
  Qed.

  (* _last_nonzero_length_index: a valid index of a non-empty list, and the
     length at that index is > 0 whenever some length is *)
  Lemma last_pos_from_range : forall fs k best,
    last_pos_from N fs k best = best
    \/ (k <= last_pos_from N fs k best < k + Z.of_nat (length fs))%Z.
  Proof.
    induction fs as [|[ex l] r IH]; intros k best; cbn [last_pos_from]; [left; reflexivity|].
    destruct (ltb N (zero N) l).
    - destruct (IH (k + 1)%Z k) as [E|E]; right; cbn [length]; [rewrite E|]; lia.
    - destruct (IH (k + 1)%Z best) as [E|E]; [left; exact E|right; cbn [length]; lia].
  Qed.
  Lemma fallback_idx_range fs : fs <> [] -> (0 <= fallback_idx N fs < Z.of_nat (length fs))%Z.
  Proof.
    intros Hne. assert (0 < length fs)%nat by (destruct fs; [congruence|simpl; lia]).
    unfold fallback_idx. destruct (last_pos_from_range fs 0 (last_idx (length fs))) as [E|E].
    - rewrite E. unfold last_idx. lia.
    - lia.
  Qed.
  Lemma last_pos_from_spec : forall fs k best,
    (last_pos_from N fs k best = best
     /\ forall j x, nth_error fs j = Some x -> ltb N (zero N) (snd x) = false)
    \/ exists j x, last_pos_from N fs k best = (k + Z.of_nat j)%Z /\ nth_error fs j = Some x
                   /\ ltb N (zero N) (snd x) = true.
  Proof.
    induction fs as [|[ex l] r IH]; intros k best; cbn [last_pos_from].
    - left. split; [reflexivity|]. intros [|j] x H; discriminate.
    - destruct (IH (k + 1)%Z (if ltb N (zero N) l then k else best)) as [[E Hall]|[j [x [E [Hj Hx]]]]].
      + destruct (ltb N (zero N) l) eqn:El.
        * right. exists 0%nat, (ex, l). split; [rewrite E; lia|split; [reflexivity|exact El]].
        * left. split; [exact E|]. intros [|j] x Hj; cbn in Hj.
          -- injection Hj as <-. exact El.
          -- eapply Hall; exact Hj.
      + right. exists (S j), x. split; [rewrite E; lia|split; assumption].
  Qed.
  Theorem fallback_idx_positive fs :
    (exists j x, nth_error fs j = Some x /\ ltb N (zero N) (snd x) = true) ->
    exists j x, fallback_idx N fs = Z.of_nat j /\ nth_error fs j = Some x
                /\ ltb N (zero N) (snd x) = true.
  Proof.
    intros [j0 [x0 [Hj0 Hx0]]].
    destruct (last_pos_from_spec fs 0%Z (last_idx (length fs))) as [[_ Hall]|[j [x [E Hx]]]].
    - rewrite (Hall j0 x0 Hj0) in Hx0. discriminate.
    - exists j, x. split; [unfold fallback_idx; rewrite E; lia|exact Hx].
  Qed.

  (* every returned index is a valid segment index of a non-empty path *)
  Theorem T2t_fr_index cl fb fs T k t : fs <> [] -> T2t_fr N cl fb fs T = Ok (k, t) ->
    (0 <= k < Z.of_nat (length fs))%Z.
  Proof.
    intros Hne. assert (0 < length fs)%nat by (destruct fs; [congruence|simpl; lia]).
    unfold T2t_fr, last_idx.
    destruct (eqb N T (one N)); [intros E; injection E as <- _; lia|].
    destruct (eqb N T (zero N)); [intros E; injection E as <- _; lia|].
    destruct (T2t_loop N cl fs 0 (zero N) T) as [k' t'| |] eqn:EL.
    - intros E; injection E as <- _. apply T2t_loop_range in EL. lia.
    - discriminate.
    - destruct (in01 N T); [|discriminate]. destruct fb; [|discriminate].
      intros E; injection E as <- _. now apply fallback_idx_range.
  Qed.
  Theorem point_fr_index fb fs T k t : point_fr N fb fs T = Ok (k, t) ->
    (0 <= k < Z.of_nat (length fs))%Z.
  Proof.
    unfold point_fr, last_idx. destruct (length fs =? 0)%nat eqn:E0; [discriminate|].
    apply Nat.eqb_neq in E0.
    destruct (eqb N T (zero N)); [intros E; injection E as <- _; lia|].
    destruct (eqb N T (one N)); [intros E; injection E as <- _; lia|].
    destruct (point_loop N fs 0 (zero N) T) as [k' t'| |] eqn:EL.
    - intros E; injection E as <- _. apply point_loop_range in EL. lia.
    - discriminate.
    - destruct (fb && in01 N T); [|discriminate]. intros E; injection E as <- _.
      apply fallback_idx_range. destruct fs; [simpl in E0; congruence|discriminate].
  Qed.

  (* ---------- the fall-back repair (fb = true) ---------- *)
  Theorem T2t_fb_no_bug cl fs T : T2t_fr N cl true fs T <> Err EBug.
  Proof.
    unfold T2t_fr. destruct (eqb N T (one N)); [discriminate|].
    destruct (eqb N T (zero N)); [discriminate|].
    destruct (T2t_loop N cl fs 0 (zero N) T); try discriminate.
    destruct (in01 N T); discriminate.
  Qed.
  (* on 0 <= T <= 1 it returns a pair, unless a selected length is an exact
     Python float 0.0 (excluded below under two comparison laws) *)
  Theorem T2t_fb_total cl fs T : in01 N T = true ->
    (exists kt, T2t_fr N cl true fs T = Ok kt) \/ T2t_fr N cl true fs T = Err EZeroDiv.
  Proof.
    intros H01. unfold T2t_fr. destruct (eqb N T (one N)); [left; eauto|].
    destruct (eqb N T (zero N)); [left; eauto|].
    destruct (T2t_loop N cl fs 0 (zero N) T); [left; eauto|right; reflexivity|].
    rewrite H01. left; eauto.
  Qed.
  (* it changes nothing where the unrepaired code returns or raises something else *)
  Theorem T2t_fb_agrees cl fs T : T2t_fr N cl false fs T <> Err EBug ->
    T2t_fr N cl true fs T = T2t_fr N cl false fs T.
  Proof.
    unfold T2t_fr. destruct (eqb N T (one N)); [reflexivity|].
    destruct (eqb N T (zero N)); [reflexivity|].
    destruct (T2t_loop N cl fs 0 (zero N) T); try reflexivity.
    destruct (in01 N T); [congruence|reflexivity].
  Qed.
  (* the only inputs on which the two differ are the fall-through ones *)
  Theorem T2t_current_bug_iff cl fs T : T2t_fr N cl false fs T = Err EBug <->
    (eqb N T (one N) = false /\ eqb N T (zero N) = false
     /\ T2t_loop N cl fs 0 (zero N) T = Fell /\ in01 N T = true).
  Proof.
    unfold T2t_fr. destruct (eqb N T (one N)); [split; [discriminate|intros [? _]; discriminate]|].
    destruct (eqb N T (zero N)); [split; [discriminate|intros [_ [? _]]; discriminate]|].
    destruct (T2t_loop N cl fs 0 (zero N) T);
      try (split; [discriminate|intros [_ [_ [? _]]]; discriminate]).
    destruct (in01 N T); split; try discriminate; auto. intros [_ [_ [_ ?]]]; discriminate.
  Qed.
  (* when it falls back it returns the end of the last segment of nonzero length *)
  Theorem T2t_fb_value cl fs T : T2t_fr N cl false fs T = Err EBug ->
    T2t_fr N cl true fs T = Ok (fallback_idx N fs, one N).
  Proof.
    intros H. apply T2t_current_bug_iff in H. destruct H as [E1 [E0 [EL E01]]].
    unfold T2t_fr. now rewrite E1, E0, EL, E01.
  Qed.

  Theorem point_fb_total fs T : fs <> [] -> in01 N T = true ->
    (exists kt, point_fr N true fs T = Ok kt) \/ point_fr N true fs T = Err EZeroDiv.
  Proof.
    intros Hne H01. unfold point_fr.
    destruct fs as [|x r]; [congruence|]. cbn [length Nat.eqb].
    destruct (eqb N T (zero N)); [left; eauto|]. destruct (eqb N T (one N)); [left; eauto|].
    destruct (point_loop N (x :: r) 0 (zero N) T); [left; eauto|right; reflexivity|].
    rewrite H01. cbn [andb]. left; eexists; reflexivity.
  Qed.
  Theorem point_fb_agrees fs T : point_fr N false fs T <> Err ERuntime ->
    point_fr N true fs T = point_fr N false fs T.
  Proof.
    unfold point_fr. destruct (length fs =? 0)%nat; [reflexivity|].
    destruct (eqb N T (zero N)); [reflexivity|]. destruct (eqb N T (one N)); [reflexivity|].
    destruct (point_loop N fs 0 (zero N) T); try reflexivity.
    cbn [andb]. congruence.
  Qed.

  (* ---------- the clamp repair (cl = true) ---------- *)
  (* relation between the two variants: same exception-or-not, same k, t clamped *)
  Lemma T2t_loop_clamp : forall fs k T0 T,
    T2t_loop N true fs k T0 T
    = match T2t_loop N false fs k T0 T with
      | Found k' t => Found k' (nmin N t (one N))
      | ZeroDiv => ZeroDiv
      | Fell => Fell
      end.
  Proof.
    induction fs as [|[ex l] r IH]; intros k T0 T; cbn [T2t_loop]; [reflexivity|].
    destruct (leb N T (add N T0 l)); [|apply IH].
    destruct (ex && eqb N l (zero N)); reflexivity.
  Qed.
  (* structural: a clamped quotient is never above 1.  Needs only that
     1 < 1 and 1 < 0 are false in the carrier (closed computations). *)
  Section ClampLe1.
    Hypothesis H11 : ltb N (one N) (one N) = false.
    Hypothesis H10 : ltb N (one N) (zero N) = false.
    Lemma nmin_not_above_1 q : ltb N (one N) (nmin N q (one N)) = false.
    Proof. unfold nmin. destruct (ltb N (one N) q) eqn:E; [exact H11|exact E]. Qed.
    Lemma T2t_loop_clamped_le_1 : forall fs k T0 T k' t,
      T2t_loop N true fs k T0 T = Found k' t -> ltb N (one N) t = false.
    Proof.
      intros fs k T0 T k' t E. rewrite T2t_loop_clamp in E.
      destruct (T2t_loop N false fs k T0 T); try discriminate.
      injection E as _ <-. apply nmin_not_above_1.
    Qed.
    Theorem T2t_clamped_le_1 fb fs T k t :
      T2t_fr N true fb fs T = Ok (k, t) -> ltb N (one N) t = false.
    Proof.
      unfold T2t_fr. destruct (eqb N T (one N)); [intros E; injection E as _ <-; exact H11|].
      destruct (eqb N T (zero N)); [intros E; injection E as _ <-; exact H10|].
      destruct (T2t_loop N true fs 0 (zero N) T) as [k' t'| |] eqn:EL; try discriminate.
      - intros E; injection E as _ <-. eapply T2t_loop_clamped_le_1; exact EL.
      - destruct (in01 N T); [|discriminate]. destruct fb; [|discriminate].
        intros E; injection E as _ <-; exact H11.
    Qed.
  End ClampLe1.
  (* the clamp changes nothing where the unclamped quotient is not above 1 *)
  Theorem T2t_clamp_agrees fb fs T k t : T2t_fr N false fb fs T = Ok (k, t) ->
    ltb N (one N) t = false -> T2t_fr N true fb fs T = Ok (k, t).
  Proof.
    unfold T2t_fr. destruct (eqb N T (one N)); [auto|]. destruct (eqb N T (zero N)); [auto|].
    rewrite T2t_loop_clamp. destruct (T2t_loop N false fs 0 (zero N) T); auto.
    intros E Ht. injection E as <- <-. unfold nmin. now rewrite Ht.
  Qed.

  (* ---------- no ZeroDivisionError, under two comparison laws ---------- *)
  Section Laws.
    (* adding a zero does not change how a sum compares *)
    Hypothesis LawA : forall T x l, eqb N l (zero N) = true -> leb N T (add N x l) = leb N T x.
    (* 0 <= T and T != 0 imply not T <= 0 *)
    Hypothesis LawB : forall T, leb N (zero N) T = true -> eqb N T (zero N) = false ->
                                leb N T (zero N) = false.
    Lemma T2t_loop_no_zerodiv_laws : forall cl fs k T0 T, leb N T T0 = false ->
      T2t_loop N cl fs k T0 T <> ZeroDiv.
    Proof.
      intros cl. induction fs as [|[ex l] r IH]; intros k T0 T Hlt; cbn [T2t_loop]; [discriminate|].
      destruct (leb N T (add N T0 l)) eqn:E.
      - destruct ex; cbn [andb]; [|discriminate].
        destruct (eqb N l (zero N)) eqn:El; [|discriminate].
        rewrite (LawA T T0 l El) in E. congruence.
      - apply IH. exact E.
    Qed.
    Theorem T2t_repaired_total cl fs T : in01 N T = true ->
      exists kt, T2t_fr N cl true fs T = Ok kt.
    Proof.
      intros H01. unfold T2t_fr. destruct (eqb N T (one N)); [eauto|].
      destruct (eqb N T (zero N)) eqn:E0; [eauto|].
      assert (Hlt : leb N T (zero N) = false).
      { apply LawB; [|exact E0]. unfold in01 in H01. now apply andb_true_iff in H01. }
      pose proof (T2t_loop_no_zerodiv_laws cl fs 0%Z (zero N) T Hlt) as NZ.
      destruct (T2t_loop N cl fs 0 (zero N) T); [eauto|congruence|].
      rewrite H01. eauto.
    Qed.
  End Laws.

  (* with the plain left fold (comp = false) t2T's segment_start is literally the
     loop's accumulator: sum(_lengths[:k+1]) = sum(_lengths[:k]) + _lengths[k] *)
  Lemma sum_plain_app l1 l2 acc :
    sum_plain N (l1 ++ l2) acc = sum_plain N l2 (sum_plain N l1 acc).
  Proof. revert acc; induction l1 as [|[b x] r IH]; intros; cbn [app sum_plain]; auto. Qed.
  Lemma firstn_S_snoc {A} (l : list A) k x : nth_error l k = Some x ->
    firstn (S k) l = firstn k l ++ [x].
  Proof.
    revert k; induction l as [|a r IH]; intros [|k] E; cbn in E; try discriminate.
    - injection E as ->. reflexivity.
    - cbn [firstn app]. f_equal. now apply IH.
  Qed.
  Theorem cum_plain_S fs k ex l : nth_error fs k = Some (ex, l) ->
    cum N false fs (S k) = add N (cum N false fs k) l.
  Proof.
    intros E. unfold cum, pysum. rewrite (firstn_S_snoc fs k (ex, l) E), sum_plain_app. reflexivity.
  Qed.
End Gen.
