(* Proofs/PathIdxGen.v — structural facts about the T2t / point search that hold
   for ANY carrier (no algebraic law is used, so they hold for binary64
   verbatim): index range, and the repaired search (fallback = true) is total
   and agrees with the current one wherever the latter returns. *)
From Coq Require Import ZArith List Bool Arith Lia.
From SVP Require Import Base.Num Model.PathIdx.
Import ListNotations.

Section Gen.
  Context {K : Type} (N : Num K).

  Lemma T2t_loop_range : forall fs k T0 T k' t,
    T2t_loop N fs k T0 T = Found k' t -> (k <= k' < k + Z.of_nat (length fs))%Z.
  Proof.
    induction fs as [|[ex l] r IH]; intros k T0 T k' t E; cbn [T2t_loop] in E; [discriminate|].
    destruct (leb N T (add N T0 l)).
    - destruct (ex && eqb N l (zero N)); [discriminate|]. injection E as <- _.
      cbn [length]. lia.
    - apply IH in E. cbn [length]. lia.
  Qed.
  Lemma point_loop_range : forall fs k s T k' t,
    point_loop N fs k s T = Found k' t -> (k <= k' < k + Z.of_nat (length fs))%Z.
  Proof.
    induction fs as [|[ex l] r IH]; intros k s T k' t E; cbn [point_loop] in E; [discriminate|].
    destruct (leb N T (add N s l)).
    - cbv zeta in E. destruct (ex && eqb N (sub N (add N s l) s) (zero N)); [discriminate|].
      injection E as <- _. cbn [length]. lia.
    - apply IH in E. cbn [length]. lia.
  Qed.

  (* every returned index is a valid segment index of a non-empty path *)
  Theorem T2t_fr_index fb fs T k t : fs <> [] -> T2t_fr N fb fs T = Ok (k, t) ->
    (0 <= k < Z.of_nat (length fs))%Z.
  Proof.
    intros Hne. assert (0 < length fs)%nat by (destruct fs; [congruence|simpl; lia]).
    unfold T2t_fr, last_idx.
    destruct (eqb N T (one N)); [intros E; injection E as <- _; lia|].
    destruct (eqb N T (zero N)); [intros E; injection E as <- _; lia|].
    destruct (T2t_loop N fs 0 (zero N) T) as [k' t'| |] eqn:EL.
    - intros E; injection E as <- _. apply T2t_loop_range in EL. lia.
    - discriminate.
    - destruct (in01 N T); [|discriminate]. destruct fb; [|discriminate].
      intros E; injection E as <- _; lia.
  Qed.
  Theorem point_fr_index fb fs T k t : point_fr N fb fs T = Ok (k, t) ->
    (0 <= k < Z.of_nat (length fs))%Z.
  Proof.
    unfold point_fr, last_idx. destruct (length fs =? 0)%nat eqn:E0; [discriminate|].
    apply Nat.eqb_neq in E0.
    destruct (eqb N T (zero N)); [intros E; injection E as <- _; lia|].
    destruct (eqb N T (one N)); [intros E; injection E as <- _; lia|].
    destruct (point_loop N fs 0 (zero N) T) as [k' t'| |] eqn:EL.
    - intros E; injection E as <- _. apply point_loop_range in EL. lia.
    - discriminate.
    - destruct (fb && in01 N T); [|discriminate]. intros E; injection E as <- _; lia.
  Qed.

  (* the repaired T2t never reaches `raise BugException` ... *)
  Theorem T2t_fixed_no_bug fs T : T2t_fixed N fs T <> Err EBug.
  Proof.
    unfold T2t_fixed, T2t_fr. destruct (eqb N T (one N)); [discriminate|].
    destruct (eqb N T (zero N)); [discriminate|].
    destruct (T2t_loop N fs 0 (zero N) T); try discriminate.
    destruct (in01 N T); discriminate.
  Qed.
  (* ... on 0 <= T <= 1 it returns a pair, unless a selected length is an exact
     Python float 0.0 (ZeroDivisionError: cannot happen for T > 0 in IEEE
     arithmetic since T0 + 0.0 = T0 < T; not derivable without float laws) *)
  Theorem T2t_fixed_total fs T : in01 N T = true ->
    (exists kt, T2t_fixed N fs T = Ok kt) \/ T2t_fixed N fs T = Err EZeroDiv.
  Proof.
    intros H01. unfold T2t_fixed, T2t_fr. destruct (eqb N T (one N)); [left; eauto|].
    destruct (eqb N T (zero N)); [left; eauto|].
    destruct (T2t_loop N fs 0 (zero N) T); [left; eauto|right; reflexivity|].
    rewrite H01. left; eauto.
  Qed.
  (* ... and it changes nothing where the current code returns or raises something else *)
  Theorem T2t_fixed_agrees fs T : T2t_fr N false fs T <> Err EBug ->
    T2t_fixed N fs T = T2t_fr N false fs T.
  Proof.
    unfold T2t_fixed, T2t_fr. destruct (eqb N T (one N)); [reflexivity|].
    destruct (eqb N T (zero N)); [reflexivity|].
    destruct (T2t_loop N fs 0 (zero N) T); try reflexivity.
    destruct (in01 N T); [congruence|reflexivity].
  Qed.
  Corollary T2t_fixed_agrees_ok fs T kt : T2t_fr N false fs T = Ok kt -> T2t_fixed N fs T = Ok kt.
  Proof. intros E. rewrite T2t_fixed_agrees; [exact E|rewrite E; discriminate]. Qed.
  (* the only inputs on which the two differ are the fall-through ones *)
  Theorem T2t_current_bug_iff fs T : T2t_fr N false fs T = Err EBug <->
    (eqb N T (one N) = false /\ eqb N T (zero N) = false
     /\ T2t_loop N fs 0 (zero N) T = Fell /\ in01 N T = true).
  Proof.
    unfold T2t_fr. destruct (eqb N T (one N)); [split; [discriminate|intros [? _]; discriminate]|].
    destruct (eqb N T (zero N)); [split; [discriminate|intros [_ [? _]]; discriminate]|].
    destruct (T2t_loop N fs 0 (zero N) T);
      try (split; [discriminate|intros [_ [_ [? _]]]; discriminate]).
    destruct (in01 N T); split; try discriminate; auto. intros [_ [_ [_ ?]]]; discriminate.
  Qed.

  (* same for point *)
  Theorem point_fixed_total fs T : fs <> [] -> in01 N T = true ->
    (exists kt, point_fr N true fs T = Ok kt) \/ point_fr N true fs T = Err EZeroDiv.
  Proof.
    intros Hne H01. unfold point_fr.
    destruct fs as [|x r]; [congruence|]. cbn [length Nat.eqb].
    destruct (eqb N T (zero N)); [left; eauto|]. destruct (eqb N T (one N)); [left; eauto|].
    destruct (point_loop N (x :: r) 0 (zero N) T); [left; eauto|right; reflexivity|].
    rewrite H01. cbn [andb]. left; eexists; reflexivity.
  Qed.
  Theorem point_fixed_agrees fs T : point_fr N false fs T <> Err ERuntime ->
    point_fr N true fs T = point_fr N false fs T.
  Proof.
    unfold point_fr. destruct (length fs =? 0)%nat; [reflexivity|].
    destruct (eqb N T (zero N)); [reflexivity|]. destruct (eqb N T (one N)); [reflexivity|].
    destruct (point_loop N fs 0 (zero N) T); try reflexivity.
    cbn [andb]. congruence.
  Qed.

  (* with the plain left fold (comp = false) t2T's segment_start is literally the
     loop's accumulator: sum(_lengths[:k+1]) = sum(_lengths[:k]) + _lengths[k] *)
  Lemma sum_plain_app l1 l2 acc :
    sum_plain N (l1 ++ l2) acc = sum_plain N l2 (sum_plain N l1 acc).
  Proof. revert acc; induction l1 as [|[b x] r IH]; intros; cbn [app sum_plain]; auto. Qed.
  Lemma firstn_S_snoc {A} (l : list A) k x : nth_error l k = Some x ->
    firstn (S k) l = firstn k l ++ [x].
  Proof.
    revert k; induction l as [|a r IH]; intros [|k] E; cbn in E; try discriminate.
    - injection E as ->. reflexivity.
    - cbn [firstn app]. f_equal. now apply IH.
  Qed.
  Theorem cum_plain_S fs k ex l : nth_error fs k = Some (ex, l) ->
    cum N false fs (S k) = add N (cum N false fs k) l.
  Proof.
    intros E. unfold cum, pysum. rewrite (firstn_S_snoc fs k (ex, l) E), sum_plain_app. reflexivity.
  Qed.
End Gen.
