(* Proofs/SvgTreeGroup.v — flattened_paths_from_group: with the "desired
   groups" / "ignored paths" filters built from the route root -> group, the
   stack traversal returns exactly the paths of that group's subtree, each with
   the product of ALL its ancestors' transforms (from the root). *)
From Coq Require Import ZArith List Bool Lia Permutation PeanoNat.
From SVP Require Import Base.Num Base.FieldTac Model.SvgTree Proofs.SvgTreeAlg Proofs.SvgTreeFlat.
Import ListNotations.

(* ---- positions ---- *)
Lemma is_prefix_app p r : is_prefix p (p ++ r) = true.
Proof. induction p as [|i p IH]; cbn; [reflexivity|]. rewrite Nat.eqb_refl, IH. reflexivity. Qed.
Lemma is_prefix_app_l p a b : is_prefix (p ++ a) (p ++ b) = is_prefix a b.
Proof. induction p as [|i p IH]; cbn; [reflexivity|]. rewrite Nat.eqb_refl, IH. reflexivity. Qed.
Lemma is_prefix_refl p : is_prefix p p = true.
Proof. rewrite <- (app_nil_r p) at 2. apply is_prefix_app. Qed.
Lemma parent_of_cons j x : x <> [] -> parent_of (j :: x) = j :: parent_of x.
Proof. destruct x; [contradiction|reflexivity]. Qed.
Lemma parent_of_snoc p i : parent_of (p ++ [i]) = p.
Proof.
  induction p as [|j p IH]; [reflexivity|].
  cbn [app]. rewrite parent_of_cons by (destruct p; discriminate). rewrite IH. reflexivity.
Qed.
Lemma parent_of_app p q : q <> [] -> parent_of (p ++ q) = p ++ parent_of q.
Proof.
  intros Hq. destruct (exists_last Hq) as (q' & i & ->).
  rewrite app_assoc, !parent_of_snoc. reflexivity.
Qed.

Definition gf_of (target : position) : position -> bool :=
  fun p => is_prefix p target || is_prefix target p.
Definition pf_of (target : position) : position -> bool :=
  fun p => negb (strict_prefix (parent_of p) target).

Lemma from_group_unfold {K} (N : Num K) root target :
  from_group N root target = flatten_stack_f N (gf_of target) (pf_of target) root.
Proof. reflexivity. Qed.

Section Group.
  Context {K : Type} (N : Num K) (OK : NumFieldOK N).
  Notation node := (@node K).
  Notation mat := (@mat K).

  (* ---- the traversal below p looks at the filters only below p ---- *)
  Lemma shapes_kind_ext pf pf' key M p l : forall i,
      (forall j, pf (p ++ [j]) = pf' (p ++ [j])) ->
      shapes_kind N pf key M p i l = shapes_kind N pf' key M p i l.
  Proof.
    induction l as [|c r IH]; intros i H; [reflexivity|].
    destruct c; cbn [shapes_kind]; rewrite (IH (S i) H), ?H; reflexivity.
  Qed.

  Lemma dfs_rev_ext gf gf' pf pf' : forall (n : node) p M,
      (forall q, q <> [] -> gf (p ++ q) = gf' (p ++ q)) ->
      (forall q, q <> [] -> pf (p ++ q) = pf' (p ++ q)) ->
      dfs_rev N gf pf n p M = dfs_rev N gf' pf' n p M.
  Proof.
    induction n as [k a tf|tf kids IHk] using node_ind'; intros p M Hg Hp; [reflexivity|].
    rewrite !dfs_rev_group. f_equal.
    - unfold shapes_of. apply flat_map_ext. intros key.
      apply shapes_kind_ext. intros j. apply Hp. discriminate.
    - generalize O.
      induction kids as [|c r IHr]; intros i; [reflexivity|].
      inversion IHk as [|? ? Hc Hr]; subst.
      cbn [go_rev]. rewrite (IHr Hr). f_equal.
      destruct c as [tfc ks|]; [|reflexivity].
      rewrite Hg by discriminate.
      destruct (gf' (p ++ [i])); [|reflexivity].
      apply Hc.
      + intros q Hq. rewrite <- app_assoc. apply Hg. destruct q; discriminate.
      + intros q Hq. rewrite <- app_assoc. apply Hp. destruct q; discriminate.
  Qed.

  (* ---- on the route: nothing but the one child that leads to the target ---- *)
  Lemma shapes_kind_none pf key M p l : forall i,
      (forall j, pf (p ++ [j]) = false) -> shapes_kind N pf key M p i l = [].
  Proof.
    induction l as [|c r IH]; intros i H; [reflexivity|].
    destruct c; cbn [shapes_kind]; rewrite (IH (S i) H), ?H, ?andb_false_r; reflexivity.
  Qed.

  Lemma go_rev_none gf pf p M l : forall i0,
      (forall j, (i0 <= j)%nat -> gf (p ++ [j]) = false) -> go_rev N gf pf p M i0 l = [].
  Proof.
    induction l as [|c r IH]; intros i0 H; [reflexivity|].
    cbn [go_rev]. rewrite IH by (intros j Hj; apply H; lia).
    destruct c; [|reflexivity]. rewrite H by lia. reflexivity.
  Qed.

  Lemma go_rev_select gf pf p M l : forall i0 k,
      (forall j, gf (p ++ [j]) = Nat.eqb j (i0 + k)) ->
      go_rev N gf pf p M i0 l
      = match nth_error l k with
        | Some (Group tfc ks) =>
            dfs_rev N gf pf (Group tfc ks) (p ++ [i0 + k]%nat) (mmul N M (parse_tf N tfc))
        | _ => []
        end.
  Proof.
    induction l as [|c r IH]; intros i0 k H.
    - destruct k; reflexivity.
    - cbn [go_rev]. destruct k as [|k'].
      + cbn [nth_error]. rewrite go_rev_none.
        2:{ intros j Hj. rewrite H. apply Nat.eqb_neq. lia. }
        cbn [app]. destruct c as [tfc ks|]; [|reflexivity].
        rewrite H, Nat.add_0_r, Nat.eqb_refl. reflexivity.
      + cbn [nth_error]. rewrite (IH (S i0) k').
        2:{ intros j. rewrite H. f_equal. lia. }
        replace (S i0 + k')%nat with (i0 + S k')%nat by lia.
        match goal with |- _ ++ ?X = _ => assert (Hc : X = []) end.
        { destruct c; [|reflexivity]. rewrite H.
          replace (Nat.eqb i0 (i0 + S k')) with false; [reflexivity|].
          symmetry; apply Nat.eqb_neq; lia. }
        rewrite Hc, app_nil_r. reflexivity.
  Qed.

  Definition is_group (n : node) : Prop :=
    match n with Group _ _ => True | Shape _ _ _ => False end.

  (* filters of the target, seen from a position on the route *)
  Lemma pf_route p i t j : pf_of (p ++ i :: t) (p ++ [j]) = false.
  Proof.
    unfold pf_of, strict_prefix. rewrite parent_of_snoc, is_prefix_app.
    rewrite <- (app_nil_r p) at 2. rewrite is_prefix_app_l. reflexivity.
  Qed.
  Lemma gf_route p i t j : gf_of (p ++ i :: t) (p ++ [j]) = Nat.eqb j i.
  Proof.
    unfold gf_of. rewrite !is_prefix_app_l. cbn [is_prefix].
    rewrite (Nat.eqb_sym i j). destruct (Nat.eqb j i); cbn; [reflexivity|reflexivity].
  Qed.
  Lemma gf_below p q : gf_of p (p ++ q) = true.
  Proof. unfold gf_of. rewrite is_prefix_app, orb_true_r. reflexivity. Qed.
  Lemma pf_below p q : q <> [] -> pf_of p (p ++ q) = true.
  Proof.
    intros Hq. unfold pf_of, strict_prefix. rewrite parent_of_app by assumption.
    rewrite (is_prefix_app p (parent_of q)), andb_false_r. reflexivity.
  Qed.

  Lemma from_group_gen : forall t (n : node) p M0 g Manc,
      subtree_at N n t M0 = Some (g, Manc) -> is_group g ->
      Permutation (dfs_rev N (gf_of (p ++ t)) (pf_of (p ++ t)) n p
                           (mmul N M0 (parse_tf N (tf_of n))))
                  (flatten_ref N g Manc).
  Proof.
    induction t as [|i t IH]; intros n p M0 g Manc Hs Hg.
    - cbn [subtree_at] in Hs. inversion Hs; subst g Manc. rewrite app_nil_r.
      rewrite (dfs_rev_ext (gf_of p) tt_ (pf_of p) tt_).
      + destruct n as [tf kids|]; [|contradiction]. cbn [tf_of].
        apply (dfs_rev_perm_ref N OK (Group tf kids)).
      + intros q _. apply gf_below.
      + intros q Hq. apply pf_below; assumption.
    - destruct n as [tf kids|]; [|discriminate]. cbn [subtree_at tf_of] in *.
      destruct (nth_error kids i) as [c|] eqn:En; [|discriminate].
      rewrite dfs_rev_group.
      assert (Hsh : shapes_of N (pf_of (p ++ i :: t)) (mmul N M0 (parse_tf N tf)) p kids = []).
      { unfold shapes_of, kinds_document. cbn [flat_map].
        rewrite !shapes_kind_none by (intros j; apply pf_route). reflexivity. }
      rewrite Hsh. cbn [app].
      rewrite (go_rev_select _ _ p _ kids O i) by (intros j; apply gf_route).
      rewrite En. cbn [Nat.add].
      destruct c as [tfc ks|k a tfc].
      + replace (p ++ i :: t) with ((p ++ [i]) ++ t) by (rewrite <- app_assoc; reflexivity).
        rewrite (parse_tf_spec N OK tf).
        apply (IH (Group tfc ks) (p ++ [i]) (mmul N M0 (tlist_spec N tf)) g Manc Hs Hg).
      + destruct t; cbn [subtree_at] in Hs; [|discriminate].
        inversion Hs; subst g. contradiction.
  Qed.

  Theorem from_group_is_ref (root : node) target g Manc :
    subtree_at N root target (mI N) = Some (g, Manc) -> is_group g ->
    Permutation (from_group N root target) (flatten_ref N g Manc).
  Proof.
    intros Hs Hg. rewrite from_group_unfold, flatten_stack_f_dfs.
    unfold gf_of at 1. cbn [is_prefix orb].
    apply (from_group_gen target root [] (mI N) g Manc Hs Hg).
  Qed.

  (* ---- recursive=False ---- *)
  Definition gf_nr (target : position) : position -> bool := fun p => is_prefix p target.

  Lemma is_prefix_snoc_self p j : is_prefix (p ++ [j]) p = false.
  Proof. induction p as [|i p IH]; cbn; [reflexivity|]. rewrite Nat.eqb_refl, IH. reflexivity. Qed.
  Lemma gf_nr_route p i t j : gf_nr (p ++ i :: t) (p ++ [j]) = Nat.eqb j i.
  Proof.
    unfold gf_nr. rewrite is_prefix_app_l. cbn [is_prefix]. rewrite andb_true_r. reflexivity.
  Qed.

  Lemma shapes_all_direct M tf kids :
    shapes_all N (mmul N M (tlist_spec N tf)) kids = direct_ref N (Group tf kids) M.
  Proof.
    cbn [direct_ref]. induction kids as [|ch r IH]; [reflexivity|].
    destruct ch as [tfc ks|k a t]; cbn [shapes_all flat_map app].
    - exact IH.
    - rewrite (parse_tf_spec N OK t), IH. reflexivity.
  Qed.

  Lemma from_group_nr_gen : forall t (n : node) p M0 g Manc,
      subtree_at N n t M0 = Some (g, Manc) -> is_group g ->
      Permutation (dfs_rev N (gf_nr (p ++ t)) (pf_of (p ++ t)) n p
                           (mmul N M0 (parse_tf N (tf_of n))))
                  (direct_ref N g Manc).
  Proof.
    induction t as [|i t IH]; intros n p M0 g Manc Hs Hg.
    - cbn [subtree_at] in Hs. inversion Hs; subst g Manc. rewrite app_nil_r.
      destruct n as [tf kids|]; [|contradiction]. cbn [tf_of].
      rewrite dfs_rev_group.
      rewrite (go_rev_none (gf_nr p) (pf_of p) p _ kids O)
        by (intros j _; unfold gf_nr; apply is_prefix_snoc_self).
      rewrite app_nil_r, (parse_tf_spec N OK tf), <- shapes_all_direct.
      unfold shapes_of.
      erewrite flat_map_ext.
      2:{ intros key. apply (shapes_kind_ext (pf_of p) tt_).
          intros j. apply pf_below. discriminate. }
      apply shapes_of_perm.
    - destruct n as [tf kids|]; [|discriminate]. cbn [subtree_at tf_of] in *.
      destruct (nth_error kids i) as [c|] eqn:En; [|discriminate].
      rewrite dfs_rev_group.
      assert (Hsh : shapes_of N (pf_of (p ++ i :: t)) (mmul N M0 (parse_tf N tf)) p kids = []).
      { unfold shapes_of, kinds_document. cbn [flat_map].
        rewrite !shapes_kind_none by (intros j; apply pf_route). reflexivity. }
      rewrite Hsh. cbn [app].
      rewrite (go_rev_select _ _ p _ kids O i) by (intros j; apply gf_nr_route).
      rewrite En. cbn [Nat.add].
      destruct c as [tfc ks|k a tfc].
      + replace (p ++ i :: t) with ((p ++ [i]) ++ t) by (rewrite <- app_assoc; reflexivity).
        rewrite (parse_tf_spec N OK tf).
        apply (IH (Group tfc ks) (p ++ [i]) (mmul N M0 (tlist_spec N tf)) g Manc Hs Hg).
      + destruct t; cbn [subtree_at] in Hs; [|discriminate].
        inversion Hs; subst g. contradiction.
  Qed.

  Theorem from_group_nr_is_ref (root : node) target g Manc :
    subtree_at N root target (mI N) = Some (g, Manc) -> is_group g ->
    Permutation (from_group_nr N root target) (direct_ref N g Manc).
  Proof.
    intros Hs Hg. unfold from_group_nr. rewrite flatten_stack_f_dfs. cbn [is_prefix].
    apply (from_group_nr_gen target root [] (mI N) g Manc Hs Hg).
  Qed.

  Lemma subtree_node_at : forall t (n : node) M0 g M,
      subtree_at N n t M0 = Some (g, M) -> node_at n t = Some g.
  Proof.
    induction t as [|i t IH]; intros n M0 g M H; cbn [subtree_at node_at] in *.
    - inversion H; reflexivity.
    - destruct n as [tf kids|]; [|discriminate].
      destruct (nth_error kids i); [|discriminate]. eapply IH; eauto.
  Qed.

  (* Document.paths_from_group(element): pinned code, for a group that has children *)
  Theorem paths_from_group_is_ref c (root : node) target tf ch kids Manc :
    subtree_at N root target (mI N) = Some (Group tf (ch :: kids), Manc) ->
    Permutation (paths_from_group N c root target) (flatten_ref N (Group tf (ch :: kids)) Manc).
  Proof.
    intros Hs. unfold paths_from_group. rewrite (subtree_node_at _ _ _ _ _ Hs).
    destruct (f_group_empty c); apply (from_group_is_ref root target _ _ Hs); exact I.
  Qed.

  (* repaired: for every group, with or without children *)
  Theorem paths_from_group_is_ref_repaired c (root : node) target g Manc :
    f_group_empty c = true ->
    subtree_at N root target (mI N) = Some (g, Manc) -> is_group g ->
    Permutation (paths_from_group N c root target) (flatten_ref N g Manc).
  Proof.
    intros Hc Hs Hg. unfold paths_from_group. rewrite Hc.
    apply (from_group_is_ref root target _ _ Hs Hg).
  Qed.
End Group.
