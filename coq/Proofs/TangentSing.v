(* Proofs/TangentSing.v — the singular branch of bezier_unit_tangent:
   rational_limit, the principal complex square root, the value of the fallback
   at a k-fold zero of the derivative (k = 1, 2), and the sign defect. *)
From Coq Require Import ZArith List Bool Reals Lra Lia Field.
From Coquelicot Require Import Coquelicot.
From SVP Require Import Base.Num Base.Cplx Base.Poly Base.FieldTac Base.Agree Model.Bezier
     Proofs.BezierAlg Proofs.BezierDeriv Model.Tangent Proofs.TangentAlg.
Import ListNotations.
Set Implicit Arguments.

(* ================= generic part (any field of characteristic 0) ================= *)
Section G.
  Context {K : Type} (N : Num K) (OK : NumFieldOK N).
  Add Field KF : (Fth OK).

  (* k-th derivative of the polynomial p, evaluated at t *)
  Definition Dk (p : list (Cplx K)) (k : nat) (t : K) : Cplx K :=
    cpeval N (iter (cpderiv N) k p) t.
  Definition cdot (a b : Cplx K) : K := add N (mul N (re a) (re b)) (mul N (im a) (im b)).
  Definition two := lit N 2.
  Definition six := lit N 6.

  (* ---- the recursion never runs out of fuel: S (length g) calls suffice ---- *)
  Lemma pderiv_length (p : list K) : length (pderiv N p) = pred (length p).
  Proof.
    induction p as [|c q IH]; [reflexivity|]. cbn [pderiv].
    destruct q as [|c' q']; [reflexivity|]. cbn [length] in *. rewrite IH. reflexivity.
  Qed.
  Lemma rational_limit_nil fuel f t0 : rational_limit N fuel f [] t0 = ErrAssert.
  Proof. destruct fuel; reflexivity. Qed.
  Lemma crational_limit_nil fuel f t0 : crational_limit N fuel f [] t0 = ErrAssert.
  Proof. destruct fuel; reflexivity. Qed.

  Lemma rational_limit_fuel fuel : forall f g t0 extra, (length g < fuel)%nat ->
    rational_limit N (fuel + extra) f g t0 = rational_limit N fuel f g t0.
  Proof.
    induction fuel as [|n IH]; intros f g t0 extra H; [lia|].
    cbn [Nat.add rational_limit].
    destruct (pzero N g); [reflexivity|].
    destruct (negb (eqb N (peval N g t0) (zero N))); [reflexivity|].
    destruct (eqb N (peval N f t0) (zero N)); [|reflexivity].
    destruct g as [|c q].
    - cbn [pderiv]. rewrite !rational_limit_nil. reflexivity.
    - apply IH. rewrite pderiv_length. cbn [length] in *. lia.
  Qed.
  Lemma crational_limit_fuel fuel : forall f g t0 extra, (length g < fuel)%nat ->
    crational_limit N (fuel + extra) f g t0 = crational_limit N fuel f g t0.
  Proof.
    induction fuel as [|n IH]; intros f g t0 extra H; [lia|].
    cbn [Nat.add crational_limit].
    destruct (pzero N g); [reflexivity|].
    destruct (negb (eqb N (peval N g t0) (zero N))); [reflexivity|].
    destruct (ceqb N (cpeval N f t0) (c0 N)); [|reflexivity].
    destruct g as [|c q].
    - cbn [pderiv]. rewrite !crational_limit_nil. reflexivity.
    - apply IH. rewrite pderiv_length. cbn [length] in *. lia.
  Qed.

  (* ---- derivatives of dseg_poly**2 and of |dseg_poly|^2 at t0, for a cubic
          [a3;a2;a1;a0] and a quadratic [a2;a1;a0], in terms of the derivatives
          d1, d2, d3 of the curve at t0 (Leibniz, checked by ring) ---- *)
  Ltac ev :=
    intros; destruct_cplx_vars; unfold Dk, cdot, two, six, dseg_sq_poly, dseg_abs2_poly;
    norm_num; try (apply cplx_eq; cbn [fst snd]); ring.

  Lemma cub_f0 (a3 a2 a1 a0 : Cplx K) (t : K) :
    cpeval N (dseg_sq_poly N [a3; a2; a1; a0]) t
    = cmul N (Dk [a3; a2; a1; a0] 1 t) (Dk [a3; a2; a1; a0] 1 t).
  Proof. ev. Qed.
  Lemma cub_f1 (a3 a2 a1 a0 : Cplx K) (t : K) :
    cpeval N (iter (cpderiv N) 1 (dseg_sq_poly N [a3; a2; a1; a0])) t
    = cscale N two (cmul N (Dk [a3; a2; a1; a0] 1 t) (Dk [a3; a2; a1; a0] 2 t)).
  Proof. ev. Qed.
  Lemma cub_f2 (a3 a2 a1 a0 : Cplx K) (t : K) :
    cpeval N (iter (cpderiv N) 2 (dseg_sq_poly N [a3; a2; a1; a0])) t
    = cadd N (cscale N two (cmul N (Dk [a3; a2; a1; a0] 2 t) (Dk [a3; a2; a1; a0] 2 t))) (cscale N two (cmul N (Dk [a3; a2; a1; a0] 1 t) (Dk [a3; a2; a1; a0] 3 t))).
  Proof. ev. Qed.
  Lemma cub_f3 (a3 a2 a1 a0 : Cplx K) (t : K) :
    cpeval N (iter (cpderiv N) 3 (dseg_sq_poly N [a3; a2; a1; a0])) t
    = cscale N six (cmul N (Dk [a3; a2; a1; a0] 2 t) (Dk [a3; a2; a1; a0] 3 t)).
  Proof. ev. Qed.
  Lemma cub_f4 (a3 a2 a1 a0 : Cplx K) (t : K) :
    cpeval N (iter (cpderiv N) 4 (dseg_sq_poly N [a3; a2; a1; a0])) t
    = cscale N six (cmul N (Dk [a3; a2; a1; a0] 3 t) (Dk [a3; a2; a1; a0] 3 t)).
  Proof. ev. Qed.
  Lemma cub_g0 (a3 a2 a1 a0 : Cplx K) (t : K) :
    peval N (dseg_abs2_poly N [a3; a2; a1; a0]) t
    = cdot (Dk [a3; a2; a1; a0] 1 t) (Dk [a3; a2; a1; a0] 1 t).
  Proof. ev. Qed.
  Lemma cub_g1 (a3 a2 a1 a0 : Cplx K) (t : K) :
    peval N (iter (pderiv N) 1 (dseg_abs2_poly N [a3; a2; a1; a0])) t
    = mul N two (cdot (Dk [a3; a2; a1; a0] 1 t) (Dk [a3; a2; a1; a0] 2 t)).
  Proof. ev. Qed.
  Lemma cub_g2 (a3 a2 a1 a0 : Cplx K) (t : K) :
    peval N (iter (pderiv N) 2 (dseg_abs2_poly N [a3; a2; a1; a0])) t
    = add N (mul N two (cdot (Dk [a3; a2; a1; a0] 2 t) (Dk [a3; a2; a1; a0] 2 t))) (mul N two (cdot (Dk [a3; a2; a1; a0] 1 t) (Dk [a3; a2; a1; a0] 3 t))).
  Proof. ev. Qed.
  Lemma cub_g3 (a3 a2 a1 a0 : Cplx K) (t : K) :
    peval N (iter (pderiv N) 3 (dseg_abs2_poly N [a3; a2; a1; a0])) t
    = mul N six (cdot (Dk [a3; a2; a1; a0] 2 t) (Dk [a3; a2; a1; a0] 3 t)).
  Proof. ev. Qed.
  Lemma cub_g4 (a3 a2 a1 a0 : Cplx K) (t : K) :
    peval N (iter (pderiv N) 4 (dseg_abs2_poly N [a3; a2; a1; a0])) t
    = mul N six (cdot (Dk [a3; a2; a1; a0] 3 t) (Dk [a3; a2; a1; a0] 3 t)).
  Proof. ev. Qed.
  Lemma cub_glen (a3 a2 a1 a0 : Cplx K) : length (dseg_abs2_poly N [a3; a2; a1; a0]) = 5%nat.
  Proof. reflexivity. Qed.

  Lemma quad_f0 (a2 a1 a0 : Cplx K) (t : K) :
    cpeval N (dseg_sq_poly N [a2; a1; a0]) t
    = cmul N (Dk [a2; a1; a0] 1 t) (Dk [a2; a1; a0] 1 t).
  Proof. ev. Qed.
  Lemma quad_f1 (a2 a1 a0 : Cplx K) (t : K) :
    cpeval N (iter (cpderiv N) 1 (dseg_sq_poly N [a2; a1; a0])) t
    = cscale N two (cmul N (Dk [a2; a1; a0] 1 t) (Dk [a2; a1; a0] 2 t)).
  Proof. ev. Qed.
  Lemma quad_f2 (a2 a1 a0 : Cplx K) (t : K) :
    cpeval N (iter (cpderiv N) 2 (dseg_sq_poly N [a2; a1; a0])) t
    = cscale N two (cmul N (Dk [a2; a1; a0] 2 t) (Dk [a2; a1; a0] 2 t)).
  Proof. ev. Qed.
  Lemma quad_g0 (a2 a1 a0 : Cplx K) (t : K) :
    peval N (dseg_abs2_poly N [a2; a1; a0]) t
    = cdot (Dk [a2; a1; a0] 1 t) (Dk [a2; a1; a0] 1 t).
  Proof. ev. Qed.
  Lemma quad_g1 (a2 a1 a0 : Cplx K) (t : K) :
    peval N (iter (pderiv N) 1 (dseg_abs2_poly N [a2; a1; a0])) t
    = mul N two (cdot (Dk [a2; a1; a0] 1 t) (Dk [a2; a1; a0] 2 t)).
  Proof. ev. Qed.
  Lemma quad_g2 (a2 a1 a0 : Cplx K) (t : K) :
    peval N (iter (pderiv N) 2 (dseg_abs2_poly N [a2; a1; a0])) t
    = mul N two (cdot (Dk [a2; a1; a0] 2 t) (Dk [a2; a1; a0] 2 t)).
  Proof. ev. Qed.
  Lemma quad_glen (a2 a1 a0 : Cplx K) : length (dseg_abs2_poly N [a2; a1; a0]) = 3%nat.
  Proof. reflexivity. Qed.

  (* factorisation of the derivative polynomial at a zero (used for the limit):
       D(tau) = D(t0) + (tau - t0) D'(t0) + (tau - t0)^2 D''(t0)/2   (cubic curve)
       D(tau) = D(t0) + (tau - t0) D'(t0)                            (quadratic curve) *)
  Lemma cub_taylor (a3 a2 a1 a0 : Cplx K) t0 tau :
    let p := [a3; a2; a1; a0] in
    let h := sub N tau t0 in
    Dk p 1 tau = cadd N (Dk p 1 t0)
                   (cadd N (cscale N h (Dk p 2 t0))
                           (cscale N (div N (mul N h h) two) (Dk p 3 t0))).
  Proof.
    intros; destruct_cplx_vars; unfold Dk, two; norm_num; apply cplx_eq; cbn [fst snd];
      field; numnz OK.
  Qed.
  Lemma quad_taylor (a2 a1 a0 : Cplx K) t0 tau :
    let p := [a2; a1; a0] in
    let h := sub N tau t0 in
    Dk p 1 tau = cadd N (Dk p 1 t0) (cscale N h (Dk p 2 t0)).
  Proof.
    intros; destruct_cplx_vars; unfold Dk; norm_num; apply cplx_eq; cbn [fst snd]; ring.
  Qed.
End G.

(* ================= over the reals ================= *)
Local Open Scope R_scope.

(* ---- pzero ---- *)
Lemma pzero_peval (p : list R) t : pzero NR p = true -> peval NR p t = 0.
Proof.
  unfold peval. assert (G : forall acc, acc = 0 -> pzero NR p = true ->
    fold_left (fun y c => add NR (mul NR y t) c) p acc = 0).
  { induction p as [|c q IH]; intros acc Ha Hz; [exact Ha|].
    cbn [pzero forallb] in Hz. apply andb_prop in Hz. destruct Hz as [Hc Hq].
    apply Req_b_true in Hc. cbn [fold_left]. apply IH; [|exact Hq].
    subst. cbn. ring. }
  intros; apply G; auto.
Qed.
Lemma pzero_pderiv (p : list R) : pzero NR p = true -> pzero NR (pderiv NR p) = true.
Proof.
  induction p as [|c q IH]; intros Hz; [reflexivity|].
  cbn [pzero forallb] in Hz. apply andb_prop in Hz. destruct Hz as [Hc Hq].
  cbn [pderiv]. destruct q as [|c' q']; [reflexivity|].
  cbn [pzero forallb]. apply andb_true_intro. split.
  - apply Req_b_true in Hc. subst c. apply Req_b_true. cbn. ring.
  - apply IH. exact Hq.
Qed.
Lemma pzero_iter (p : list R) n t : pzero NR p = true -> peval NR (iter (pderiv NR) n p) t = 0.
Proof.
  revert p. induction n as [|n IH]; intros p Hz; cbn [iter].
  - apply pzero_peval; exact Hz.
  - apply IH. apply pzero_pderiv; exact Hz.
Qed.
Lemma pzero_all (p : list R) : List.Forall (fun c => c = 0) p -> pzero NR p = true.
Proof.
  induction 1 as [|c q Hc Hq IH]; [reflexivity|].
  cbn [pzero forallb]. apply andb_true_intro. split; [apply Req_b_true; exact Hc|exact IH].
Qed.

Lemma ceqb_R_true z : z = (0, 0) -> ceqb NR z (c0 NR) = true.
Proof. intros ->. unfold ceqb, c0; cbn. rewrite !(proj2 (Req_b_true 0 0)); reflexivity. Qed.

(* ---- what rational_limit returns: the quotient of the first derivatives that
        do not both vanish (l'Hopital), provided the denominator's is non-zero ---- *)
Lemma crational_limit_spec n : forall fuel (f : list (Cplx R)) (g : list R) t0,
  (n < fuel)%nat ->
  (forall j, (j < n)%nat -> peval NR (iter (pderiv NR) j g) t0 = 0 /\
                            cpeval NR (iter (cpderiv NR) j f) t0 = (0, 0)) ->
  peval NR (iter (pderiv NR) n g) t0 <> 0 ->
  crational_limit NR fuel f g t0 =
    Val (cdivr NR (cpeval NR (iter (cpderiv NR) n f) t0) (peval NR (iter (pderiv NR) n g) t0)).
Proof.
  induction n as [|n IH]; intros fuel f g t0 Hf Hz Hn; (destruct fuel as [|m]; [lia|]).
  - cbn [iter] in *. cbn [crational_limit].
    destruct (pzero NR g) eqn:Pz.
    { exfalso. apply Hn. apply pzero_peval; exact Pz. }
    rewrite eqb_R_false by exact Hn. reflexivity.
  - cbn [crational_limit].
    destruct (pzero NR g) eqn:Pz.
    { exfalso. apply Hn. apply pzero_iter; exact Pz. }
    destruct (Hz 0%nat) as [G0 F0]; [lia|]. cbn [iter] in G0, F0.
    rewrite G0. change (zero NR) with 0. rewrite eqb_R_true. cbn [negb].
    rewrite (ceqb_R_true F0).
    apply (IH m (cpderiv NR f) (pderiv NR g) t0); [lia| |exact Hn].
    intros j Hj. apply (Hz (S j)). lia.
Qed.
Lemma rational_limit_spec n : forall fuel (f g : list R) t0,
  (n < fuel)%nat ->
  (forall j, (j < n)%nat -> peval NR (iter (pderiv NR) j g) t0 = 0 /\
                            peval NR (iter (pderiv NR) j f) t0 = 0) ->
  peval NR (iter (pderiv NR) n g) t0 <> 0 ->
  rational_limit NR fuel f g t0 =
    Val (peval NR (iter (pderiv NR) n f) t0 / peval NR (iter (pderiv NR) n g) t0).
Proof.
  induction n as [|n IH]; intros fuel f g t0 Hf Hz Hn; (destruct fuel as [|m]; [lia|]).
  - cbn [iter] in *. cbn [rational_limit].
    destruct (pzero NR g) eqn:Pz.
    { exfalso. apply Hn. apply pzero_peval; exact Pz. }
    rewrite eqb_R_false by exact Hn. reflexivity.
  - cbn [rational_limit].
    destruct (pzero NR g) eqn:Pz.
    { exfalso. apply Hn. apply pzero_iter; exact Pz. }
    destruct (Hz 0%nat) as [G0 F0]; [lia|]. cbn [iter] in G0, F0.
    rewrite G0, F0. change (zero NR) with 0. rewrite eqb_R_true. cbn [negb].
    apply (IH m (pderiv NR f) (pderiv NR g) t0); [lia| |exact Hn].
    intros j Hj. apply (Hz (S j)). lia.
Qed.

(* ---- the principal square root of a square ---- *)
Definition right_half (w : Cplx R) : Prop := 0 < fst w \/ (fst w = 0 /\ 0 <= snd w).
Definition left_half (w : Cplx R) : Prop := fst w < 0 \/ (fst w = 0 /\ snd w < 0).
Lemma half_cases w : right_half w \/ left_half w.
Proof. unfold right_half, left_half. destruct (Rtotal_order (fst w) 0) as [H|[H|H]];
  destruct (Rlt_le_dec (snd w) 0); lra. Qed.

Lemma csqrt_parts (u v : R) :
  csqrt NR TR (cmul NR (u, v) (u, v)) =
  (Rabs u, if Rlt_b (u * v + v * u) 0 then - Rabs v else Rabs v).
Proof.
  unfold csqrt, cmul, cabs; cbn [re im fst snd NumR NumTR hypot_ sqrt_ add sub mul div opp ltb zero lit of_pos one].
  assert (Hr : sqrt ((u * u - v * v) * (u * u - v * v) + (u * v + v * u) * (u * v + v * u)) = u * u + v * v).
  { replace ((u * u - v * v) * (u * u - v * v) + (u * v + v * u) * (u * v + v * u))
      with ((u * u + v * v) * (u * u + v * v)) by ring. apply sqrt_square. nra. }
  rewrite Hr.
  replace ((u * u + v * v + (u * u - v * v)) / (1 + 1)) with (u * u) by field.
  replace ((u * u + v * v - (u * u - v * v)) / (1 + 1)) with (v * v) by field.
  rewrite !sqrt_sq_abs. reflexivity.
Qed.

Lemma csqrt_sq_right w : right_half w -> csqrt NR TR (cmul NR w w) = w.
Proof.
  destruct w as [u v]. unfold right_half; cbn [fst snd]. intros H. rewrite csqrt_parts.
  unfold Rlt_b. destruct H as [Hu|[Hu Hv]].
  - rewrite (Rabs_right u) by lra. f_equal.
    destruct (Rlt_dec (u * v + v * u) 0) as [L|L].
    + assert (v < 0) by nra. rewrite Rabs_left by lra. ring.
    + assert (0 <= v) by nra. rewrite Rabs_right by lra. reflexivity.
  - subst u. rewrite Rabs_R0. f_equal.
    destruct (Rlt_dec (0 * v + v * 0) 0) as [L|L]; [lra|]. rewrite Rabs_right by lra. reflexivity.
Qed.
Lemma csqrt_sq_left w : left_half w -> csqrt NR TR (cmul NR w w) = copp NR w.
Proof.
  destruct w as [u v]. unfold left_half, copp; cbn [fst snd re im NumR opp]. intros H. rewrite csqrt_parts.
  unfold Rlt_b. destruct H as [Hu|[Hu Hv]].
  - rewrite (Rabs_left u) by lra. f_equal.
    destruct (Rlt_dec (u * v + v * u) 0) as [L|L].
    + assert (0 < v) by nra. rewrite Rabs_right by lra. reflexivity.
    + assert (v <= 0) by nra. destruct (Req_dec v 0) as [->|Hv0].
      * rewrite Rabs_R0. ring.
      * rewrite Rabs_left by lra. reflexivity.
  - subst u. rewrite Rabs_R0. f_equal; [ring|].
    destruct (Rlt_dec (0 * v + v * 0) 0) as [L|L]; [lra|]. rewrite Rabs_left by lra. reflexivity.
Qed.
(* the principal root always lies in the closed right half plane *)
Lemma csqrt_right_half z : 0 <= fst (csqrt NR TR z).
Proof. unfold csqrt; cbn. apply sqrt_pos. Qed.

(* ---- w^2/|w|^2 is the square of the unit vector ---- *)
Lemma sq_over_norm2 (c : R) w : w <> (0, 0) -> c <> 0 ->
  cdivr NR (cscale NR c (cmul NR w w)) (c * cdot NR w w)
  = cmul NR (unit_of NR TR w) (unit_of NR TR w).
Proof.
  intros Hw Hc. pose proof (nrm_pos Hw) as P. pose proof (nrm_sq w) as S.
  rewrite unit_of_R. destruct w as [u v]. unfold cdivr, cscale, cmul, cdot; cbn [fst snd re im NumR add sub mul div] in *.
  rewrite <- S. apply cplx_eq; cbn [fst snd]; field; lra.
Qed.
Lemma cdot_pos w : w <> (0, 0) -> 0 < cdot NR w w.
Proof. destruct w as [u v]. intros H. unfold cdot; cbn. apply (sumsq_pos H). Qed.

(* principal root of the squared unit vector *)
Definition principal_dir (w : Cplx R) : Cplx R :=
  csqrt NR TR (cmul NR (unit_of NR TR w) (unit_of NR TR w)).
Lemma unit_of_half_right w : w <> (0, 0) -> right_half w -> right_half (unit_of NR TR w).
Proof.
  intros Hw. pose proof (nrm_pos Hw) as P. rewrite unit_of_R. destruct w as [u v].
  unfold right_half; cbn [fst snd]. intros [H|[H1 H2]].
  - left. apply Rdiv_lt_0_compat; lra.
  - right. subst u. split; [unfold Rdiv; ring|]. apply Rle_mult_inv_pos; lra.
Qed.
Lemma unit_of_half_left w : w <> (0, 0) -> left_half w -> left_half (unit_of NR TR w).
Proof.
  intros Hw. pose proof (nrm_pos Hw) as P. rewrite unit_of_R. destruct w as [u v].
  unfold left_half; cbn [fst snd]. intros [H|[H1 H2]].
  - left. unfold Rdiv. pose proof (Rinv_0_lt_compat _ P). nra.
  - right. subst u. split; [unfold Rdiv; ring|]. unfold Rdiv. pose proof (Rinv_0_lt_compat _ P). nra.
Qed.
Lemma principal_dir_right w : w <> (0, 0) -> right_half w -> principal_dir w = unit_of NR TR w.
Proof. intros Hw H. apply csqrt_sq_right, unit_of_half_right; assumption. Qed.
Lemma principal_dir_left w : w <> (0, 0) -> left_half w ->
  principal_dir w = copp NR (unit_of NR TR w).
Proof. intros Hw H. apply csqrt_sq_left, unit_of_half_left; assumption. Qed.

(* ---- value of the fallback at a zero of order k of the derivative ---- *)
Notation DkR := (Dk NR).

Ltac pair0 H := let a := fresh in let b := fresh in
  match type of H with ?z = (0, 0) => destruct z as [a b]; inversion H; subst end.

Lemma cdot0 w : cdot NR (0, 0) w = 0. Proof. unfold cdot; cbn. ring. Qed.
Lemma cdot0r w : cdot NR w (0, 0) = 0. Proof. unfold cdot; cbn. ring. Qed.
Lemma cmul0 w : cmul NR (0, 0) w = (0, 0). Proof. unfold cmul; cbn. f_equal; ring. Qed.
Lemma cmul0r w : cmul NR w (0, 0) = (0, 0). Proof. unfold cmul; cbn. f_equal; ring. Qed.
Lemma cscale0 c : cscale NR c (0, 0) = (0, 0). Proof. unfold cscale; cbn. f_equal; ring. Qed.
Lemma cadd0r w : cadd NR w (0, 0) = w. Proof. destruct w; unfold cadd; cbn. f_equal; ring. Qed.
Lemma cadd0l w : cadd NR (0, 0) w = w. Proof. destruct w; unfold cadd; cbn. f_equal; ring. Qed.
Lemma two_R : two NR = 2. Proof. unfold two. apply lit_R. Qed.
Lemma six_R : six NR = 6. Proof. unfold six. apply lit_R. Qed.

(* cubic curve, simple zero of the derivative: the result is the principal
   root of (f1/|f1|)^2 with f1 the second derivative *)
Lemma fallback_cubic_k1 (a3 a2 a1 a0 : Cplx R) t0 :
  let p := [a3; a2; a1; a0] in
  DkR p 1 t0 = (0, 0) -> DkR p 2 t0 <> (0, 0) ->
  unit_tangent_fallback NR TR p t0 = Val (principal_dir (DkR p 2 t0)).
Proof.
  intros p H1 H2. unfold unit_tangent_fallback.
  pose proof (cdot_pos H2) as P2.
  rewrite (@crational_limit_spec 2); cycle 1.
  - unfold p. rewrite (cub_glen NR). lia.
  - intros j Hj. destruct j as [|[|j]]; [| |lia].
    + cbn [iter]. unfold p. rewrite (cub_g0 NumR_ok), (cub_f0 NumR_ok). fold p. rewrite H1.
      rewrite cdot0, cmul0. auto.
    + unfold p. rewrite (cub_g1 NumR_ok), (cub_f1 NumR_ok). fold p. rewrite H1.
      rewrite cdot0, cmul0, cscale0. split; [cbn; ring|reflexivity].
  - unfold p. rewrite (cub_g2 NumR_ok). fold p. rewrite H1, cdot0, two_R. cbn [add mul NumR]. lra.
  - cbn [res_map]. f_equal. unfold principal_dir. f_equal.
    unfold p. rewrite (cub_g2 NumR_ok), (cub_f2 NumR_ok). fold p.
    rewrite H1, cdot0, cmul0, cscale0, cadd0r, two_R. cbn [add mul NumR].
    replace (2 * cdot NR (DkR p 2 t0) (DkR p 2 t0) + 2 * 0) with (2 * cdot NR (DkR p 2 t0) (DkR p 2 t0)) by ring.
    apply sq_over_norm2; [exact H2|lra].
Qed.

(* cubic curve, double zero of the derivative (three coincident control points) *)
Lemma fallback_cubic_k2 (a3 a2 a1 a0 : Cplx R) t0 :
  let p := [a3; a2; a1; a0] in
  DkR p 1 t0 = (0, 0) -> DkR p 2 t0 = (0, 0) -> DkR p 3 t0 <> (0, 0) ->
  unit_tangent_fallback NR TR p t0 = Val (principal_dir (DkR p 3 t0)).
Proof.
  intros p H1 H2 H3. unfold unit_tangent_fallback.
  pose proof (cdot_pos H3) as P3.
  rewrite (@crational_limit_spec 4); cycle 1.
  - unfold p. rewrite (cub_glen NR). lia.
  - intros j Hj. destruct j as [|[|[|[|j]]]]; [| | | |lia].
    + cbn [iter]. unfold p. rewrite (cub_g0 NumR_ok), (cub_f0 NumR_ok). fold p. rewrite H1.
      rewrite cdot0, cmul0. auto.
    + unfold p. rewrite (cub_g1 NumR_ok), (cub_f1 NumR_ok). fold p. rewrite H1.
      rewrite cdot0, cmul0, cscale0. split; [cbn; ring|reflexivity].
    + unfold p. rewrite (cub_g2 NumR_ok), (cub_f2 NumR_ok). fold p. rewrite H1, H2.
      rewrite !cdot0, !cmul0, !cscale0, cadd0r. split; [cbn; ring|reflexivity].
    + unfold p. rewrite (cub_g3 NumR_ok), (cub_f3 NumR_ok). fold p. rewrite H2.
      rewrite !cdot0, !cmul0, !cscale0. split; [cbn; ring|reflexivity].
  - unfold p. rewrite (cub_g4 NumR_ok). fold p. rewrite six_R. cbn [mul NumR]. lra.
  - cbn [res_map]. f_equal. unfold principal_dir. f_equal.
    unfold p. rewrite (cub_g4 NumR_ok), (cub_f4 NumR_ok). fold p. rewrite six_R. cbn [mul NumR].
    apply sq_over_norm2; [exact H3|lra].
Qed.

(* quadratic curve, zero of the derivative (two coincident control points) *)
Lemma fallback_quad_k1 (a2 a1 a0 : Cplx R) t0 :
  let p := [a2; a1; a0] in
  DkR p 1 t0 = (0, 0) -> DkR p 2 t0 <> (0, 0) ->
  unit_tangent_fallback NR TR p t0 = Val (principal_dir (DkR p 2 t0)).
Proof.
  intros p H1 H2. unfold unit_tangent_fallback.
  pose proof (cdot_pos H2) as P2.
  rewrite (@crational_limit_spec 2); cycle 1.
  - unfold p. rewrite (quad_glen NR). lia.
  - intros j Hj. destruct j as [|[|j]]; [| |lia].
    + cbn [iter]. unfold p. rewrite (quad_g0 NumR_ok), (quad_f0 NumR_ok). fold p. rewrite H1.
      rewrite cdot0, cmul0. auto.
    + unfold p. rewrite (quad_g1 NumR_ok), (quad_f1 NumR_ok). fold p. rewrite H1.
      rewrite cdot0, cmul0, cscale0. split; [cbn; ring|reflexivity].
  - unfold p. rewrite (quad_g2 NumR_ok). fold p. rewrite two_R. cbn [mul NumR]. lra.
  - cbn [res_map]. f_equal. unfold principal_dir. f_equal.
    unfold p. rewrite (quad_g2 NumR_ok), (quad_f2 NumR_ok). fold p. rewrite two_R. cbn [mul NumR].
    apply sq_over_norm2; [exact H2|lra].
Qed.

(* ---- the same for the segment classes ---- *)
Lemma cubic_d_Dk s c1 c2 e t n : (1 <= n)%Z ->
  cubic_d NR s c1 c2 e t n = DkR (cubic_poly NR s c1 c2 e) (Z.to_nat n) t.
Proof. intros H. unfold cubic_d. rewrite (cubic_deriv_formal NR NumR_ok) by exact H. reflexivity. Qed.
Lemma quad_d_Dk s c e t n : (1 <= n)%Z ->
  quad_d NR s c e t n = DkR (quad_poly NR s c e) (Z.to_nat n) t.
Proof. intros H. unfold quad_d. rewrite (quad_deriv_formal NR NumR_ok) by exact H. reflexivity. Qed.

Lemma bezier_unit_tangent_singular poly hi t :
  bezier_unit_tangent NR TR false poly (0, 0) hi t = unit_tangent_fallback NR TR poly t.
Proof.
  unfold bezier_unit_tangent. rewrite cabs_R.
  assert (E : nrm (0, 0) = 0) by (apply nrm_zero_iff; reflexivity).
  rewrite E. change (zero NR) with 0. rewrite eqb_R_true. reflexivity.
Qed.

Lemma cubic_singular_k1 s c1 c2 e t0 :
  cubic_d NR s c1 c2 e t0 1 = (0, 0) -> cubic_d NR s c1 c2 e t0 2 <> (0, 0) ->
  cubic_unit_tangent NR TR false s c1 c2 e t0 = Val (principal_dir (cubic_d NR s c1 c2 e t0 2)).
Proof.
  intros H1 H2. unfold cubic_unit_tangent. rewrite H1, bezier_unit_tangent_singular.
  rewrite cubic_d_Dk in H1, H2 |- * by lia. unfold cubic_poly in *.
  apply fallback_cubic_k1; assumption.
Qed.
Lemma cubic_singular_k2 s c1 c2 e t0 :
  cubic_d NR s c1 c2 e t0 1 = (0, 0) -> cubic_d NR s c1 c2 e t0 2 = (0, 0) ->
  cubic_d NR s c1 c2 e t0 3 <> (0, 0) ->
  cubic_unit_tangent NR TR false s c1 c2 e t0 = Val (principal_dir (cubic_d NR s c1 c2 e t0 3)).
Proof.
  intros H1 H2 H3. unfold cubic_unit_tangent. rewrite H1, bezier_unit_tangent_singular.
  rewrite cubic_d_Dk in H1, H2, H3 |- * by lia. unfold cubic_poly in *.
  apply fallback_cubic_k2; assumption.
Qed.
Lemma quad_singular_k1 s c e t0 :
  quad_d NR s c e t0 1 = (0, 0) -> quad_d NR s c e t0 2 <> (0, 0) ->
  quad_unit_tangent NR TR false s c e t0 = Val (principal_dir (quad_d NR s c e t0 2)).
Proof.
  intros H1 H2. unfold quad_unit_tangent. rewrite H1, bezier_unit_tangent_singular.
  rewrite quad_d_Dk in H1, H2 |- * by lia. unfold quad_poly in *.
  apply fallback_quad_k1; assumption.
Qed.

(* ---- the repaired fallback ---- *)
Lemma ceqb_R_false z : z <> (0, 0) -> ceqb NR z (c0 NR) = false.
Proof.
  destruct z as [x y]. intros H. unfold ceqb, c0; cbn [re im fst snd eqb NumR zero].
  unfold Req_b. destruct (Req_EM_T x 0) as [->|Hx]; [|reflexivity].
  destruct (Req_EM_T y 0) as [->|Hy]; [contradiction|reflexivity].
Qed.
Lemma bezier_unit_tangent_singular_rep poly hi t :
  bezier_unit_tangent NR TR true poly (0, 0) hi t = unit_tangent_fallback_repaired NR TR hi t.
Proof.
  unfold bezier_unit_tangent. rewrite cabs_R.
  assert (E : nrm (0, 0) = 0) by (apply nrm_zero_iff; reflexivity).
  rewrite E. change (zero NR) with 0. rewrite eqb_R_true. reflexivity.
Qed.
(* direction returned at a zero of the derivative: that of the first non-vanishing
   higher derivative, negated for even n at t0 = 1 *)
Definition travel_dir (t0 : R) (even_n : bool) (d : Cplx R) : Cplx R :=
  if Req_b t0 1 && even_n then copp NR (unit_of NR TR d) else unit_of NR TR d.
Lemma travel_dir_unit t0 ev d :
  unit_of NR TR (if Req_b t0 1 && ev then copp NR d else d) = travel_dir t0 ev d.
Proof. unfold travel_dir. destruct (Req_b t0 1 && ev); [apply unit_of_copp|reflexivity]. Qed.

Lemma cubic_repaired_k1 s c1 c2 e t0 :
  cubic_d NR s c1 c2 e t0 1 = (0, 0) -> cubic_d NR s c1 c2 e t0 2 <> (0, 0) ->
  cubic_unit_tangent NR TR true s c1 c2 e t0 = Val (travel_dir t0 true (cubic_d NR s c1 c2 e t0 2)).
Proof.
  intros H1 H2. unfold cubic_unit_tangent. rewrite H1, bezier_unit_tangent_singular_rep.
  unfold unit_tangent_fallback_repaired. cbn [first_dir]. rewrite (ceqb_R_false H2).
  f_equal. apply (travel_dir_unit t0 true).
Qed.
Lemma cubic_repaired_k2 s c1 c2 e t0 :
  cubic_d NR s c1 c2 e t0 1 = (0, 0) -> cubic_d NR s c1 c2 e t0 2 = (0, 0) ->
  cubic_d NR s c1 c2 e t0 3 <> (0, 0) ->
  cubic_unit_tangent NR TR true s c1 c2 e t0 = Val (unit_of NR TR (cubic_d NR s c1 c2 e t0 3)).
Proof.
  intros H1 H2 H3. unfold cubic_unit_tangent. rewrite H1, bezier_unit_tangent_singular_rep.
  unfold unit_tangent_fallback_repaired. cbn [first_dir]. rewrite H2, (ceqb_R_true (eq_refl _)).
  rewrite (ceqb_R_false H3). cbn [Nat.even]. rewrite andb_false_r. reflexivity.
Qed.
Lemma quad_repaired_k1 s c e t0 :
  quad_d NR s c e t0 1 = (0, 0) -> quad_d NR s c e t0 2 <> (0, 0) ->
  quad_unit_tangent NR TR true s c e t0 = Val (travel_dir t0 true (quad_d NR s c e t0 2)).
Proof.
  intros H1 H2. unfold quad_unit_tangent. rewrite H1, bezier_unit_tangent_singular_rep.
  unfold unit_tangent_fallback_repaired. cbn [first_dir]. rewrite (ceqb_R_false H2).
  f_equal. apply (travel_dir_unit t0 true).
Qed.
(* a curve whose higher derivatives all vanish there (all control points equal): ValueError *)
Lemma cubic_repaired_degenerate s c1 c2 e t0 :
  cubic_d NR s c1 c2 e t0 1 = (0, 0) -> cubic_d NR s c1 c2 e t0 2 = (0, 0) ->
  cubic_d NR s c1 c2 e t0 3 = (0, 0) ->
  cubic_unit_tangent NR TR true s c1 c2 e t0 = ErrValue.
Proof.
  intros H1 H2 H3. unfold cubic_unit_tangent. rewrite H1, bezier_unit_tangent_singular_rep.
  unfold unit_tangent_fallback_repaired. cbn [first_dir]. rewrite H2, H3, (ceqb_R_true (eq_refl _)).
  reflexivity.
Qed.

(* ================= the limit of the quotient d/|d| from one side ================= *)
Definition lim_right (f : R -> Cplx R) (t0 : R) (u : Cplx R) : Prop :=
  filterlim (fun tau => fst (f tau)) (at_right t0) (locally (fst u)) /\
  filterlim (fun tau => snd (f tau)) (at_right t0) (locally (snd u)).
Definition lim_left (f : R -> Cplx R) (t0 : R) (u : Cplx R) : Prop :=
  filterlim (fun tau => fst (f tau)) (at_left t0) (locally (fst u)) /\
  filterlim (fun tau => snd (f tau)) (at_left t0) (locally (snd u)).
(* the quotient whose limit unit_tangent is documented to return *)
Definition tangent_quot (p : list (Cplx R)) (tau : R) : Cplx R := unit_of NR TR (DkR p 1 tau).

Lemma unit_of_cscale_any (l : R) d : 0 < l -> unit_of NR TR (cscale NR l d) = unit_of NR TR d.
Proof.
  intros Hl. destruct d as [x y].
  destruct (Req_dec x 0) as [Hx|Hx]; [destruct (Req_dec y 0) as [Hy|Hy]|].
  - subst. replace (cscale NR l (0, 0)) with ((0, 0) : Cplx R); [reflexivity|].
    unfold cscale; cbn. f_equal; ring.
  - apply unit_of_cscale; [exact Hl|]. intros E; inversion E; contradiction.
  - apply unit_of_cscale; [exact Hl|]. intros E; inversion E; contradiction.
Qed.

Lemma at_right_le_locally (x : R) : filter_le (at_right x) (locally x).
Proof. apply filter_le_within. Qed.
Lemma at_left_le_locally (x : R) : filter_le (at_left x) (locally x).
Proof. apply filter_le_within. Qed.

(* tau |-> unit_of (a + (tau - t0) b) is continuous at t0 when a <> 0 *)
Lemma unit_of_affine_cont (a b : Cplx R) t0 : a <> (0, 0) ->
  filterlim (fun tau => fst (unit_of NR TR (cadd NR a (cscale NR (tau - t0) b)))) (locally t0)
            (locally (fst (unit_of NR TR a))) /\
  filterlim (fun tau => snd (unit_of NR TR (cadd NR a (cscale NR (tau - t0) b)))) (locally t0)
            (locally (snd (unit_of NR TR a))).
Proof.
  intros Ha. pose proof (nrm_pos Ha) as P. destruct a as [a1 a2], b as [b1 b2].
  pose proof (sumsq_pos Ha) as Q.
  assert (E : forall tau, unit_of NR TR (cadd NR (a1, a2) (cscale NR (tau - t0) (b1, b2))) =
     ((a1 + (tau - t0) * b1) / sqrt ((a1 + (tau - t0) * b1) * (a1 + (tau - t0) * b1) + (a2 + (tau - t0) * b2) * (a2 + (tau - t0) * b2)),
      (a2 + (tau - t0) * b2) / sqrt ((a1 + (tau - t0) * b1) * (a1 + (tau - t0) * b1) + (a2 + (tau - t0) * b2) * (a2 + (tau - t0) * b2)))).
  { intros tau. reflexivity. }
  assert (V : unit_of NR TR (a1, a2) =
     ((a1 + (t0 - t0) * b1) / sqrt ((a1 + (t0 - t0) * b1) * (a1 + (t0 - t0) * b1) + (a2 + (t0 - t0) * b2) * (a2 + (t0 - t0) * b2)),
      (a2 + (t0 - t0) * b2) / sqrt ((a1 + (t0 - t0) * b1) * (a1 + (t0 - t0) * b1) + (a2 + (t0 - t0) * b2) * (a2 + (t0 - t0) * b2)))).
  { rewrite unit_of_R. unfold nrm; cbn [fst snd].
    replace (a1 + (t0 - t0) * b1) with a1 by ring. replace (a2 + (t0 - t0) * b2) with a2 by ring.
    reflexivity. }
  rewrite V. cbn [fst snd].
  assert (Q' : 0 < (a1 + (t0 - t0) * b1) * (a1 + (t0 - t0) * b1) + (a2 + (t0 - t0) * b2) * (a2 + (t0 - t0) * b2)).
  { replace (a1 + (t0 - t0) * b1) with a1 by ring. replace (a2 + (t0 - t0) * b2) with a2 by ring. exact Q. }
  split.
  - apply (filterlim_ext (fun tau => (a1 + (tau - t0) * b1) / sqrt ((a1 + (tau - t0) * b1) * (a1 + (tau - t0) * b1) + (a2 + (tau - t0) * b2) * (a2 + (tau - t0) * b2)))).
    { intros tau. rewrite E. reflexivity. }
    apply (ex_derive_continuous (fun tau => (a1 + (tau - t0) * b1) / sqrt ((a1 + (tau - t0) * b1) * (a1 + (tau - t0) * b1) + (a2 + (tau - t0) * b2) * (a2 + (tau - t0) * b2)))).
    auto_derive. split; [exact Q'|]. split; [|exact I].
    apply Rgt_not_eq, sqrt_lt_R0, Q'.
  - apply (filterlim_ext (fun tau => (a2 + (tau - t0) * b2) / sqrt ((a1 + (tau - t0) * b1) * (a1 + (tau - t0) * b1) + (a2 + (tau - t0) * b2) * (a2 + (tau - t0) * b2)))).
    { intros tau. rewrite E. reflexivity. }
    apply (ex_derive_continuous (fun tau => (a2 + (tau - t0) * b2) / sqrt ((a1 + (tau - t0) * b1) * (a1 + (tau - t0) * b1) + (a2 + (tau - t0) * b2) * (a2 + (tau - t0) * b2)))).
    auto_derive. split; [exact Q'|]. split; [|exact I].
    apply Rgt_not_eq, sqrt_lt_R0, Q'.
Qed.

(* d(tau) = (tau - t0) (a + (tau - t0) b) with a <> 0: simple zero at t0 *)
Lemma lim_right_simple (a b : Cplx R) t0 : a <> (0, 0) ->
  lim_right (fun tau => unit_of NR TR (cscale NR (tau - t0) (cadd NR a (cscale NR (tau - t0) b))))
            t0 (unit_of NR TR a).
Proof.
  intros Ha. destruct (unit_of_affine_cont b t0 Ha) as [C1 C2]. split.
  - eapply filterlim_ext_loc; [|eapply filterlim_filter_le_1; [apply at_right_le_locally|exact C1]].
    exists (mkposreal 1 Rlt_0_1). intros y _ Hy. cbv beta.
    rewrite (@unit_of_cscale_any (y - t0)) by lra. reflexivity.
  - eapply filterlim_ext_loc; [|eapply filterlim_filter_le_1; [apply at_right_le_locally|exact C2]].
    exists (mkposreal 1 Rlt_0_1). intros y _ Hy. cbv beta.
    rewrite (@unit_of_cscale_any (y - t0)) by lra. reflexivity.
Qed.

Lemma cscale_neg (h : R) (d : Cplx R) : cscale NR h d = cscale NR (- h) (copp NR d).
Proof. destruct d as [x y]. unfold cscale, copp; cbn. f_equal; ring. Qed.

Lemma lim_left_simple (a b : Cplx R) t0 : a <> (0, 0) ->
  lim_left (fun tau => unit_of NR TR (cscale NR (tau - t0) (cadd NR a (cscale NR (tau - t0) b))))
           t0 (copp NR (unit_of NR TR a)).
Proof.
  intros Ha. destruct (unit_of_affine_cont b t0 Ha) as [C1 C2].
  assert (O1 := filterlim_comp _ _ _ _ Ropp _ _ _ C1 (filterlim_opp (fst (unit_of NR TR a)))).
  assert (O2 := filterlim_comp _ _ _ _ Ropp _ _ _ C2 (filterlim_opp (snd (unit_of NR TR a)))).
  split.
  - eapply filterlim_ext_loc; [|eapply filterlim_filter_le_1; [apply at_left_le_locally|exact O1]].
    exists (mkposreal 1 Rlt_0_1). intros y _ Hy. cbv beta.
    rewrite (cscale_neg (y - t0) (cadd NR a (cscale NR (y - t0) b))), (@unit_of_cscale_any (- (y - t0))) by lra. rewrite unit_of_copp. reflexivity.
  - eapply filterlim_ext_loc; [|eapply filterlim_filter_le_1; [apply at_left_le_locally|exact O2]].
    exists (mkposreal 1 Rlt_0_1). intros y _ Hy. cbv beta.
    rewrite (cscale_neg (y - t0) (cadd NR a (cscale NR (y - t0) b))), (@unit_of_cscale_any (- (y - t0))) by lra. rewrite unit_of_copp. reflexivity.
Qed.

(* d(tau) = (tau - t0)^2/2 * a: double zero at t0, same limit from both sides *)
Lemma lim_double (a : Cplx R) t0 :
  lim_right (fun tau => unit_of NR TR (cscale NR ((tau - t0) * (tau - t0) / 2) a)) t0 (unit_of NR TR a) /\
  lim_left (fun tau => unit_of NR TR (cscale NR ((tau - t0) * (tau - t0) / 2) a)) t0 (unit_of NR TR a).
Proof.
  assert (P : forall y, y <> t0 -> 0 < (y - t0) * (y - t0) / 2).
  { intros y Hy. assert (y - t0 <> 0) by lra. nra. }
  split; split.
  - eapply filterlim_ext_loc; [|apply filterlim_const].
    exists (mkposreal 1 Rlt_0_1). intros y _ Hy. cbv beta. rewrite unit_of_cscale_any; [reflexivity|apply P; lra].
  - eapply filterlim_ext_loc; [|apply filterlim_const].
    exists (mkposreal 1 Rlt_0_1). intros y _ Hy. cbv beta. rewrite unit_of_cscale_any; [reflexivity|apply P; lra].
  - eapply filterlim_ext_loc; [|apply filterlim_const].
    exists (mkposreal 1 Rlt_0_1). intros y _ Hy. cbv beta. rewrite unit_of_cscale_any; [reflexivity|apply P; lra].
  - eapply filterlim_ext_loc; [|apply filterlim_const].
    exists (mkposreal 1 Rlt_0_1). intros y _ Hy. cbv beta. rewrite unit_of_cscale_any; [reflexivity|apply P; lra].
Qed.

Lemma lim_right_ext f g t0 u : (forall tau, f tau = g tau) -> lim_right f t0 u -> lim_right g t0 u.
Proof.
  intros E [A B]. split; eapply filterlim_ext; try eassumption; intros; cbv beta; rewrite E; reflexivity.
Qed.
Lemma lim_left_ext f g t0 u : (forall tau, f tau = g tau) -> lim_left f t0 u -> lim_left g t0 u.
Proof.
  intros E [A B]. split; eapply filterlim_ext; try eassumption; intros; cbv beta; rewrite E; reflexivity.
Qed.

(* cubic curve: Taylor form of the derivative over R *)
Lemma cub_taylor_R (a3 a2 a1 a0 : Cplx R) t0 tau :
  let p := [a3; a2; a1; a0] in
  DkR p 1 t0 = (0, 0) ->
  DkR p 1 tau = cscale NR (tau - t0)
                  (cadd NR (DkR p 2 t0) (cscale NR (tau - t0) (cscale NR (/ 2) (DkR p 3 t0)))).
Proof.
  intros p H1. unfold p. rewrite (cub_taylor NumR_ok a3 a2 a1 a0 t0 tau). cbv zeta. fold p. rewrite H1.
  rewrite two_R. destruct (DkR p 2 t0) as [x2 y2], (DkR p 3 t0) as [x3 y3].
  unfold cadd, cscale; cbn [fst snd re im NumR add sub mul div]. f_equal; field.
Qed.
Lemma cub_taylor_R2 (a3 a2 a1 a0 : Cplx R) t0 tau :
  let p := [a3; a2; a1; a0] in
  DkR p 1 t0 = (0, 0) -> DkR p 2 t0 = (0, 0) ->
  DkR p 1 tau = cscale NR ((tau - t0) * (tau - t0) / 2) (DkR p 3 t0).
Proof.
  intros p H1 H2. unfold p. rewrite (cub_taylor NumR_ok a3 a2 a1 a0 t0 tau). cbv zeta. fold p. rewrite H1, H2.
  rewrite two_R. destruct (DkR p 3 t0) as [x3 y3].
  unfold cadd, cscale; cbn [fst snd re im NumR add sub mul div]. f_equal; field.
Qed.
Lemma quad_taylor_R (a2 a1 a0 : Cplx R) t0 tau :
  let p := [a2; a1; a0] in
  DkR p 1 t0 = (0, 0) ->
  DkR p 1 tau = cscale NR (tau - t0) (cadd NR (DkR p 2 t0) (cscale NR (tau - t0) (0, 0))).
Proof.
  intros p H1. unfold p. rewrite (quad_taylor NumR_ok a2 a1 a0 t0 tau). cbv zeta. fold p. rewrite H1.
  destruct (DkR p 2 t0) as [x2 y2].
  unfold cadd, cscale; cbn [fst snd re im NumR add sub mul div]. f_equal; ring.
Qed.

(* the limit of d/|d| from inside the parameter interval, at a zero of the derivative *)
Lemma cubic_limit_k1 (a3 a2 a1 a0 : Cplx R) t0 :
  let p := [a3; a2; a1; a0] in
  DkR p 1 t0 = (0, 0) -> DkR p 2 t0 <> (0, 0) ->
  lim_right (tangent_quot p) t0 (unit_of NR TR (DkR p 2 t0)) /\
  lim_left (tangent_quot p) t0 (copp NR (unit_of NR TR (DkR p 2 t0))).
Proof.
  intros p H1 H2. subst p. split.
  - eapply lim_right_ext; [|apply (lim_right_simple (cscale NR (/ 2) (DkR [a3; a2; a1; a0] 3 t0)) t0 H2)].
    intros tau. unfold tangent_quot. rewrite (cub_taylor_R tau H1). reflexivity.
  - eapply lim_left_ext; [|apply (lim_left_simple (cscale NR (/ 2) (DkR [a3; a2; a1; a0] 3 t0)) t0 H2)].
    intros tau. unfold tangent_quot. rewrite (cub_taylor_R tau H1). reflexivity.
Qed.
Lemma cubic_limit_k2 (a3 a2 a1 a0 : Cplx R) t0 :
  let p := [a3; a2; a1; a0] in
  DkR p 1 t0 = (0, 0) -> DkR p 2 t0 = (0, 0) ->
  lim_right (tangent_quot p) t0 (unit_of NR TR (DkR p 3 t0)) /\
  lim_left (tangent_quot p) t0 (unit_of NR TR (DkR p 3 t0)).
Proof.
  intros p H1 H2. subst p. destruct (lim_double (DkR [a3; a2; a1; a0] 3 t0) t0) as [A B]. split.
  - eapply lim_right_ext; [|exact A].
    intros tau. unfold tangent_quot. rewrite (cub_taylor_R2 tau H1 H2). reflexivity.
  - eapply lim_left_ext; [|exact B].
    intros tau. unfold tangent_quot. rewrite (cub_taylor_R2 tau H1 H2). reflexivity.
Qed.
Lemma quad_limit_k1 (a2 a1 a0 : Cplx R) t0 :
  let p := [a2; a1; a0] in
  DkR p 1 t0 = (0, 0) -> DkR p 2 t0 <> (0, 0) ->
  lim_right (tangent_quot p) t0 (unit_of NR TR (DkR p 2 t0)) /\
  lim_left (tangent_quot p) t0 (copp NR (unit_of NR TR (DkR p 2 t0))).
Proof.
  intros p H1 H2. subst p. split.
  - eapply lim_right_ext; [|apply (lim_right_simple (0, 0) t0 H2)].
    intros tau. unfold tangent_quot. rewrite (quad_taylor_R tau H1). reflexivity.
  - eapply lim_left_ext; [|apply (lim_left_simple (0, 0) t0 H2)].
    intros tau. unfold tangent_quot. rewrite (quad_taylor_R tau H1). reflexivity.
Qed.
