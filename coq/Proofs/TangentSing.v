(* Proofs/TangentSing.v — the singular branch of bezier_unit_tangent:
   rational_limit, the principal complex square root, the value of the fallback
   at a k-fold zero of the derivative (k = 1, 2), and the sign defect. *)
From Coq Require Import ZArith List Bool Reals Lra Lia Field.
From Coquelicot Require Import Coquelicot.
From SVP Require Import Base.Num Base.Cplx Base.Poly Base.FieldTac Base.Agree Model.Bezier
     Proofs.BezierAlg Proofs.BezierDeriv Model.Tangent Proofs.TangentAlg.
Import ListNotations.
Set Implicit Arguments.

(* ================= generic part (any field of characteristic 0) ================= *)
Section G.
  Context {K : Type} (N : Num K) (OK : NumFieldOK N).
  Add Field KF : (Fth OK).

  (* k-th derivative of the polynomial p, evaluated at t *)
  Definition Dk (p : list (Cplx K)) (k : nat) (t : K) : Cplx K :=
    cpeval N (iter (cpderiv N) k p) t.
  Definition cdot (a b : Cplx K) : K := add N (mul N (re a) (re b)) (mul N (im a) (im b)).
  Definition two := lit N 2.
  Definition six := lit N 6.

  (* ---- the recursion never runs out of fuel: S (length g) calls suffice ---- *)
  Lemma pderiv_length (p : list K) : length (pderiv N p) = pred (length p).
  Proof.
    induction p as [|c q IH]; [reflexivity|]. cbn [pderiv].
    destruct q as [|c' q']; [reflexivity|]. cbn [length] in *. rewrite IH. reflexivity.
  Qed.
  Lemma rational_limit_nil fuel f t0 : rational_limit N fuel f [] t0 = ErrAssert.
  Proof. destruct fuel; reflexivity. Qed.
  Lemma crational_limit_nil fuel f t0 : crational_limit N fuel f [] t0 = ErrAssert.
  Proof. destruct fuel; reflexivity. Qed.

  Lemma rational_limit_fuel fuel : forall f g t0 extra, (length g < fuel)%nat ->
    rational_limit N (fuel + extra) f g t0 = rational_limit N fuel f g t0.
  Proof.
    induction fuel as [|n IH]; intros f g t0 extra H; [lia|].
    cbn [Nat.add rational_limit].
    destruct (pzero N g); [reflexivity|].
    destruct (negb (eqb N (peval N g t0) (zero N))); [reflexivity|].
    destruct (eqb N (peval N f t0) (zero N)); [|reflexivity].
    destruct g as [|c q].
    - cbn [pderiv]. rewrite !rational_limit_nil. reflexivity.
    - apply IH. rewrite pderiv_length. cbn [length] in *. lia.
  Qed.
  Lemma crational_limit_fuel fuel : forall f g t0 extra, (length g < fuel)%nat ->
    crational_limit N (fuel + extra) f g t0 = crational_limit N fuel f g t0.
  Proof.
    induction fuel as [|n IH]; intros f g t0 extra H; [lia|].
    cbn [Nat.add crational_limit].
    destruct (pzero N g); [reflexivity|].
    destruct (negb (eqb N (peval N g t0) (zero N))); [reflexivity|].
    destruct (ceqb N (cpeval N f t0) (c0 N)); [|reflexivity].
    destruct g as [|c q].
    - cbn [pderiv]. rewrite !crational_limit_nil. reflexivity.
    - apply IH. rewrite pderiv_length. cbn [length] in *. lia.
  Qed.

  (* ---- derivatives of dseg_poly**2 and of |dseg_poly|^2 at t0, for a cubic
          [a3;a2;a1;a0] and a quadratic [a2;a1;a0], in terms of the derivatives
          d1, d2, d3 of the curve at t0 (Leibniz, checked by ring) ---- *)
  Ltac ev :=
    intros; destruct_cplx_vars; unfold Dk, cdot, two, six, dseg_sq_poly, dseg_abs2_poly;
    norm_num; try (apply cplx_eq; cbn [fst snd]); ring.

  Section Cubic.
    Variables (a3 a2 a1 a0 : Cplx K) (t : K).
    Let p := [a3; a2; a1; a0].
    Let f := dseg_sq_poly N p.
    Let g := dseg_abs2_poly N p.
    Let d1 := Dk p 1 t. Let d2 := Dk p 2 t. Let d3 := Dk p 3 t.
    Lemma cub_f0 : cpeval N f t = cmul N d1 d1. Proof. subst p f g d1 d2 d3. ev. Qed.
    Lemma cub_f1 : cpeval N (iter (cpderiv N) 1 f) t = cscale N two (cmul N d1 d2).
    Proof. subst p f g d1 d2 d3. ev. Qed.
    Lemma cub_f2 : cpeval N (iter (cpderiv N) 2 f) t
                   = cadd N (cscale N two (cmul N d2 d2)) (cscale N two (cmul N d1 d3)).
    Proof. subst p f g d1 d2 d3. ev. Qed.
    Lemma cub_f3 : cpeval N (iter (cpderiv N) 3 f) t = cscale N six (cmul N d2 d3).
    Proof. subst p f g d1 d2 d3. ev. Qed.
    Lemma cub_f4 : cpeval N (iter (cpderiv N) 4 f) t = cscale N six (cmul N d3 d3).
    Proof. subst p f g d1 d2 d3. ev. Qed.
    Lemma cub_g0 : peval N g t = cdot d1 d1. Proof. subst p f g d1 d2 d3. ev. Qed.
    Lemma cub_g1 : peval N (iter (pderiv N) 1 g) t = mul N two (cdot d1 d2).
    Proof. subst p f g d1 d2 d3. ev. Qed.
    Lemma cub_g2 : peval N (iter (pderiv N) 2 g) t
                   = add N (mul N two (cdot d2 d2)) (mul N two (cdot d1 d3)).
    Proof. subst p f g d1 d2 d3. ev. Qed.
    Lemma cub_g3 : peval N (iter (pderiv N) 3 g) t = mul N six (cdot d2 d3).
    Proof. subst p f g d1 d2 d3. ev. Qed.
    Lemma cub_g4 : peval N (iter (pderiv N) 4 g) t = mul N six (cdot d3 d3).
    Proof. subst p f g d1 d2 d3. ev. Qed.
    Lemma cub_glen : length g = 5%nat. Proof. reflexivity. Qed.
  End Cubic.

  Section Quad.
    Variables (a2 a1 a0 : Cplx K) (t : K).
    Let p := [a2; a1; a0].
    Let f := dseg_sq_poly N p.
    Let g := dseg_abs2_poly N p.
    Let d1 := Dk p 1 t. Let d2 := Dk p 2 t.
    Lemma quad_f0 : cpeval N f t = cmul N d1 d1. Proof. subst p f g d1 d2. ev. Qed.
    Lemma quad_f1 : cpeval N (iter (cpderiv N) 1 f) t = cscale N two (cmul N d1 d2).
    Proof. subst p f g d1 d2. ev. Qed.
    Lemma quad_f2 : cpeval N (iter (cpderiv N) 2 f) t = cscale N two (cmul N d2 d2).
    Proof. subst p f g d1 d2. ev. Qed.
    Lemma quad_g0 : peval N g t = cdot d1 d1. Proof. subst p f g d1 d2. ev. Qed.
    Lemma quad_g1 : peval N (iter (pderiv N) 1 g) t = mul N two (cdot d1 d2).
    Proof. subst p f g d1 d2. ev. Qed.
    Lemma quad_g2 : peval N (iter (pderiv N) 2 g) t = mul N two (cdot d2 d2).
    Proof. subst p f g d1 d2. ev. Qed.
    Lemma quad_glen : length g = 3%nat. Proof. reflexivity. Qed.
  End Quad.

  (* factorisation of the derivative polynomial at a zero (used for the limit):
       D(tau) = D(t0) + (tau - t0) D'(t0) + (tau - t0)^2 D''(t0)/2   (cubic curve)
       D(tau) = D(t0) + (tau - t0) D'(t0)                            (quadratic curve) *)
  Lemma cub_taylor (a3 a2 a1 a0 : Cplx K) t0 tau :
    let p := [a3; a2; a1; a0] in
    let h := sub N tau t0 in
    Dk p 1 tau = cadd N (Dk p 1 t0)
                   (cadd N (cscale N h (Dk p 2 t0))
                           (cscale N (div N (mul N h h) two) (Dk p 3 t0))).
  Proof.
    intros; destruct_cplx_vars; unfold Dk, two; norm_num; apply cplx_eq; cbn [fst snd];
      field; numnz OK.
  Qed.
  Lemma quad_taylor (a2 a1 a0 : Cplx K) t0 tau :
    let p := [a2; a1; a0] in
    let h := sub N tau t0 in
    Dk p 1 tau = cadd N (Dk p 1 t0) (cscale N h (Dk p 2 t0)).
  Proof.
    intros; destruct_cplx_vars; unfold Dk; norm_num; apply cplx_eq; cbn [fst snd]; ring.
  Qed.
End G.

(* ================= over the reals ================= *)
Local Open Scope R_scope.

(* ---- pzero ---- *)
Lemma pzero_peval (p : list R) t : pzero NR p = true -> peval NR p t = 0.
Proof.
  unfold peval. assert (G : forall acc, acc = 0 -> pzero NR p = true ->
    fold_left (fun y c => add NR (mul NR y t) c) p acc = 0).
  { induction p as [|c q IH]; intros acc Ha Hz; [exact Ha|].
    cbn [pzero forallb] in Hz. apply andb_prop in Hz. destruct Hz as [Hc Hq].
    apply Req_b_true in Hc. cbn [fold_left]. apply IH; [|exact Hq].
    subst. cbn. ring. }
  intros; apply G; auto.
Qed.
Lemma pzero_pderiv (p : list R) : pzero NR p = true -> pzero NR (pderiv NR p) = true.
Proof.
  induction p as [|c q IH]; intros Hz; [reflexivity|].
  cbn [pzero forallb] in Hz. apply andb_prop in Hz. destruct Hz as [Hc Hq].
  cbn [pderiv]. destruct q as [|c' q']; [reflexivity|].
  cbn [pzero forallb]. apply andb_true_intro. split.
  - apply Req_b_true in Hc. subst c. apply Req_b_true. cbn. ring.
  - apply IH. exact Hq.
Qed.
Lemma pzero_iter (p : list R) n t : pzero NR p = true -> peval NR (iter (pderiv NR) n p) t = 0.
Proof.
  revert p. induction n as [|n IH]; intros p Hz; cbn [iter].
  - apply pzero_peval; exact Hz.
  - apply IH. apply pzero_pderiv; exact Hz.
Qed.
Lemma pzero_all (p : list R) : Forall (fun c => c = 0) p -> pzero NR p = true.
Proof.
  induction 1 as [|c q Hc Hq IH]; [reflexivity|].
  cbn [pzero forallb]. apply andb_true_intro. split; [apply Req_b_true; exact Hc|exact IH].
Qed.

Lemma ceqb_R_true z : z = (0, 0) -> ceqb NR z (c0 NR) = true.
Proof. intros ->. unfold ceqb, c0; cbn. rewrite !(proj2 (Req_b_true 0 0)); reflexivity. Qed.

(* ---- what rational_limit returns: the quotient of the first derivatives that
        do not both vanish (l'Hopital), provided the denominator's is non-zero ---- *)
Lemma crational_limit_spec n : forall fuel (f : list (Cplx R)) (g : list R) t0,
  (n < fuel)%nat ->
  (forall j, (j < n)%nat -> peval NR (iter (pderiv NR) j g) t0 = 0 /\
                            cpeval NR (iter (cpderiv NR) j f) t0 = (0, 0)) ->
  peval NR (iter (pderiv NR) n g) t0 <> 0 ->
  crational_limit NR fuel f g t0 =
    Val (cdivr NR (cpeval NR (iter (cpderiv NR) n f) t0) (peval NR (iter (pderiv NR) n g) t0)).
Proof.
  induction n as [|n IH]; intros fuel f g t0 Hf Hz Hn; (destruct fuel as [|m]; [lia|]).
  - cbn [iter] in *. cbn [crational_limit].
    destruct (pzero NR g) eqn:Pz.
    { exfalso. apply Hn. apply pzero_peval; exact Pz. }
    rewrite eqb_R_false by exact Hn. reflexivity.
  - cbn [crational_limit].
    destruct (pzero NR g) eqn:Pz.
    { exfalso. apply Hn. apply pzero_iter; exact Pz. }
    destruct (Hz 0%nat) as [G0 F0]; [lia|]. cbn [iter] in G0, F0.
    rewrite G0. change (zero NR) with 0. rewrite eqb_R_true. cbn [negb].
    rewrite (ceqb_R_true F0).
    apply (IH m (cpderiv NR f) (pderiv NR g) t0); [lia| |exact Hn].
    intros j Hj. apply (Hz (S j)). lia.
Qed.
Lemma rational_limit_spec n : forall fuel (f g : list R) t0,
  (n < fuel)%nat ->
  (forall j, (j < n)%nat -> peval NR (iter (pderiv NR) j g) t0 = 0 /\
                            peval NR (iter (pderiv NR) j f) t0 = 0) ->
  peval NR (iter (pderiv NR) n g) t0 <> 0 ->
  rational_limit NR fuel f g t0 =
    Val (peval NR (iter (pderiv NR) n f) t0 / peval NR (iter (pderiv NR) n g) t0).
Proof.
  induction n as [|n IH]; intros fuel f g t0 Hf Hz Hn; (destruct fuel as [|m]; [lia|]).
  - cbn [iter] in *. cbn [rational_limit].
    destruct (pzero NR g) eqn:Pz.
    { exfalso. apply Hn. apply pzero_peval; exact Pz. }
    rewrite eqb_R_false by exact Hn. reflexivity.
  - cbn [rational_limit].
    destruct (pzero NR g) eqn:Pz.
    { exfalso. apply Hn. apply pzero_iter; exact Pz. }
    destruct (Hz 0%nat) as [G0 F0]; [lia|]. cbn [iter] in G0, F0.
    rewrite G0, F0. change (zero NR) with 0. rewrite eqb_R_true. cbn [negb].
    apply (IH m (pderiv NR f) (pderiv NR g) t0); [lia| |exact Hn].
    intros j Hj. apply (Hz (S j)). lia.
Qed.

(* ---- the principal square root of a square ---- *)
Definition right_half (w : Cplx R) : Prop := 0 < fst w \/ (fst w = 0 /\ 0 <= snd w).
Definition left_half (w : Cplx R) : Prop := fst w < 0 \/ (fst w = 0 /\ snd w < 0).
Lemma half_cases w : right_half w \/ left_half w.
Proof. unfold right_half, left_half. destruct (Rtotal_order (fst w) 0) as [H|[H|H]]; try lra.
  destruct (Rlt_le_dec (snd w) 0); lra. Qed.

Lemma csqrt_parts (u v : R) :
  csqrt NR TR (cmul NR (u, v) (u, v)) =
  (Rabs u, if Rlt_b (u * v + v * u) 0 then - Rabs v else Rabs v).
Proof.
  unfold csqrt, cmul, cabs; cbn [re im fst snd NumR NumTR hypot_ sqrt_ add sub mul div opp ltb zero lit of_pos one].
  assert (Hr : sqrt ((u * u - v * v) * (u * u - v * v) + (u * v + v * u) * (u * v + v * u)) = u * u + v * v).
  { replace ((u * u - v * v) * (u * u - v * v) + (u * v + v * u) * (u * v + v * u))
      with ((u * u + v * v) * (u * u + v * v)) by ring. apply sqrt_square. nra. }
  rewrite Hr.
  replace ((u * u + v * v + (u * u - v * v)) / (1 + 1)) with (u * u) by field.
  replace ((u * u + v * v - (u * u - v * v)) / (1 + 1)) with (v * v) by field.
  rewrite !sqrt_sq_abs. reflexivity.
Qed.

Lemma csqrt_sq_right w : right_half w -> csqrt NR TR (cmul NR w w) = w.
Proof.
  destruct w as [u v]. unfold right_half; cbn [fst snd]. intros H. rewrite csqrt_parts.
  unfold Rlt_b. destruct H as [Hu|[Hu Hv]].
  - rewrite (Rabs_right u) by lra. f_equal.
    destruct (Rlt_dec (u * v + v * u) 0) as [L|L].
    + assert (v < 0) by nra. rewrite Rabs_left by lra. ring.
    + assert (0 <= v) by nra. rewrite Rabs_right by lra. reflexivity.
  - subst u. rewrite Rabs_R0. f_equal.
    destruct (Rlt_dec (0 * v + v * 0) 0) as [L|L]; [lra|]. rewrite Rabs_right by lra. reflexivity.
Qed.
Lemma csqrt_sq_left w : left_half w -> csqrt NR TR (cmul NR w w) = copp NR w.
Proof.
  destruct w as [u v]. unfold left_half, copp; cbn [fst snd re im NumR opp]. intros H. rewrite csqrt_parts.
  unfold Rlt_b. destruct H as [Hu|[Hu Hv]].
  - rewrite (Rabs_left u) by lra. f_equal.
    destruct (Rlt_dec (u * v + v * u) 0) as [L|L].
    + assert (0 < v) by nra. rewrite Rabs_right by lra. reflexivity.
    + assert (v <= 0) by nra. destruct (Req_dec v 0) as [->|Hv0].
      * rewrite Rabs_R0. ring.
      * rewrite Rabs_left by lra. reflexivity.
  - subst u. rewrite Rabs_R0. f_equal; [ring|].
    destruct (Rlt_dec (0 * v + v * 0) 0) as [L|L]; [lra|]. rewrite Rabs_left by lra. reflexivity.
Qed.
(* the principal root always lies in the closed right half plane *)
Lemma csqrt_right_half z : 0 <= fst (csqrt NR TR z).
Proof. unfold csqrt; cbn. apply sqrt_pos. Qed.

(* ---- w^2/|w|^2 is the square of the unit vector ---- *)
Lemma sq_over_norm2 (c : R) w : w <> (0, 0) -> c <> 0 ->
  cdivr NR (cscale NR c (cmul NR w w)) (c * cdot NR w w)
  = cmul NR (unit_of NR TR w) (unit_of NR TR w).
Proof.
  intros Hw Hc. pose proof (nrm_pos Hw) as P. pose proof (nrm_sq w) as S.
  rewrite unit_of_R. destruct w as [u v]. unfold cdivr, cscale, cmul, cdot; cbn [fst snd re im NumR add sub mul div] in *.
  rewrite <- S. apply cplx_eq; cbn [fst snd]; field; lra.
Qed.
Lemma cdot_pos w : w <> (0, 0) -> 0 < cdot NR w w.
Proof. destruct w as [u v]. intros H. unfold cdot; cbn. apply (sumsq_pos H). Qed.

(* principal root of the squared unit vector *)
Definition principal_dir (w : Cplx R) : Cplx R :=
  csqrt NR TR (cmul NR (unit_of NR TR w) (unit_of NR TR w)).
Lemma unit_of_half_right w : w <> (0, 0) -> right_half w -> right_half (unit_of NR TR w).
Proof.
  intros Hw. pose proof (nrm_pos Hw) as P. rewrite unit_of_R. destruct w as [u v].
  unfold right_half; cbn [fst snd]. intros [H|[H1 H2]].
  - left. apply Rdiv_lt_0_compat; lra.
  - right. subst u. split; [unfold Rdiv; ring|]. apply Rle_mult_inv_pos; lra.
Qed.
Lemma unit_of_half_left w : w <> (0, 0) -> left_half w -> left_half (unit_of NR TR w).
Proof.
  intros Hw. pose proof (nrm_pos Hw) as P. rewrite unit_of_R. destruct w as [u v].
  unfold left_half; cbn [fst snd]. intros [H|[H1 H2]].
  - left. unfold Rdiv. pose proof (Rinv_0_lt_compat _ P). nra.
  - right. subst u. split; [unfold Rdiv; ring|]. unfold Rdiv. pose proof (Rinv_0_lt_compat _ P). nra.
Qed.
Lemma principal_dir_right w : w <> (0, 0) -> right_half w -> principal_dir w = unit_of NR TR w.
Proof. intros Hw H. apply csqrt_sq_right, unit_of_half_right; assumption. Qed.
Lemma principal_dir_left w : w <> (0, 0) -> left_half w ->
  principal_dir w = copp NR (unit_of NR TR w).
Proof. intros Hw H. apply csqrt_sq_left, unit_of_half_left; assumption. Qed.

(* ---- value of the fallback at a zero of order k of the derivative ---- *)
Notation DkR := (Dk NR).

Ltac pair0 H := let a := fresh in let b := fresh in
  match type of H with ?z = (0, 0) => destruct z as [a b]; inversion H; subst end.

Lemma cdot0 w : cdot NR (0, 0) w = 0. Proof. unfold cdot; cbn. ring. Qed.
Lemma cdot0r w : cdot NR w (0, 0) = 0. Proof. unfold cdot; cbn. ring. Qed.
Lemma cmul0 w : cmul NR (0, 0) w = (0, 0). Proof. unfold cmul; cbn. f_equal; ring. Qed.
Lemma cmul0r w : cmul NR w (0, 0) = (0, 0). Proof. unfold cmul; cbn. f_equal; ring. Qed.
Lemma cscale0 c : cscale NR c (0, 0) = (0, 0). Proof. unfold cscale; cbn. f_equal; ring. Qed.
Lemma cadd0r w : cadd NR w (0, 0) = w. Proof. destruct w; unfold cadd; cbn. f_equal; ring. Qed.
Lemma cadd0l w : cadd NR (0, 0) w = w. Proof. destruct w; unfold cadd; cbn. f_equal; ring. Qed.
Lemma two_R : two NR = 2. Proof. unfold two. apply lit_R. Qed.
Lemma six_R : six NR = 6. Proof. unfold six. apply lit_R. Qed.

(* cubic curve, simple zero of the derivative: the result is the principal
   root of (f1/|f1|)^2 with f1 the second derivative *)
Lemma fallback_cubic_k1 (a3 a2 a1 a0 : Cplx R) t0 :
  let p := [a3; a2; a1; a0] in
  DkR p 1 t0 = (0, 0) -> DkR p 2 t0 <> (0, 0) ->
  unit_tangent_fallback NR TR p t0 = Val (principal_dir (DkR p 2 t0)).
Proof.
  intros p H1 H2. unfold unit_tangent_fallback.
  pose proof (cdot_pos H2) as P2.
  rewrite (@crational_limit_spec 2); cycle 1.
  - unfold p. rewrite (cub_glen NR). lia.
  - intros j Hj. destruct j as [|[|j]]; [| |lia].
    + cbn [iter]. unfold p. rewrite (cub_g0 NR NumR_ok), (cub_f0 NR NumR_ok). fold p. rewrite H1.
      rewrite cdot0, cmul0. auto.
    + unfold p. rewrite (cub_g1 NR NumR_ok), (cub_f1 NR NumR_ok). fold p. rewrite H1.
      rewrite cdot0, cmul0, cscale0. split; [cbn; ring|reflexivity].
  - unfold p. rewrite (cub_g2 NR NumR_ok). fold p. rewrite H1, cdot0, two_R. cbn [add mul NumR]. lra.
  - cbn [res_map]. f_equal. unfold principal_dir. f_equal.
    unfold p. rewrite (cub_g2 NR NumR_ok), (cub_f2 NR NumR_ok). fold p.
    rewrite H1, cdot0, cmul0, cscale0, cadd0r, two_R. cbn [add mul NumR].
    replace (2 * cdot NR (DkR p 2 t0) (DkR p 2 t0) + 2 * 0) with (2 * cdot NR (DkR p 2 t0) (DkR p 2 t0)) by ring.
    apply sq_over_norm2; [exact H2|lra].
Qed.

(* cubic curve, double zero of the derivative (three coincident control points) *)
Lemma fallback_cubic_k2 (a3 a2 a1 a0 : Cplx R) t0 :
  let p := [a3; a2; a1; a0] in
  DkR p 1 t0 = (0, 0) -> DkR p 2 t0 = (0, 0) -> DkR p 3 t0 <> (0, 0) ->
  unit_tangent_fallback NR TR p t0 = Val (principal_dir (DkR p 3 t0)).
Proof.
  intros p H1 H2 H3. unfold unit_tangent_fallback.
  pose proof (cdot_pos H3) as P3.
  rewrite (@crational_limit_spec 4); cycle 1.
  - unfold p. rewrite (cub_glen NR). lia.
  - intros j Hj. destruct j as [|[|[|[|j]]]]; [| | | |lia].
    + cbn [iter]. unfold p. rewrite (cub_g0 NR NumR_ok), (cub_f0 NR NumR_ok). fold p. rewrite H1.
      rewrite cdot0, cmul0. auto.
    + unfold p. rewrite (cub_g1 NR NumR_ok), (cub_f1 NR NumR_ok). fold p. rewrite H1.
      rewrite cdot0, cmul0, cscale0. split; [cbn; ring|reflexivity].
    + unfold p. rewrite (cub_g2 NR NumR_ok), (cub_f2 NR NumR_ok). fold p. rewrite H1, H2.
      rewrite !cdot0, !cmul0, !cscale0, cadd0r. split; [cbn; ring|reflexivity].
    + unfold p. rewrite (cub_g3 NR NumR_ok), (cub_f3 NR NumR_ok). fold p. rewrite H2.
      rewrite !cdot0, !cmul0, !cscale0. split; [cbn; ring|reflexivity].
  - unfold p. rewrite (cub_g4 NR NumR_ok). fold p. rewrite six_R. cbn [mul NumR]. lra.
  - cbn [res_map]. f_equal. unfold principal_dir. f_equal.
    unfold p. rewrite (cub_g4 NR NumR_ok), (cub_f4 NR NumR_ok). fold p. rewrite six_R. cbn [mul NumR].
    apply sq_over_norm2; [exact H3|lra].
Qed.

(* quadratic curve, zero of the derivative (two coincident control points) *)
Lemma fallback_quad_k1 (a2 a1 a0 : Cplx R) t0 :
  let p := [a2; a1; a0] in
  DkR p 1 t0 = (0, 0) -> DkR p 2 t0 <> (0, 0) ->
  unit_tangent_fallback NR TR p t0 = Val (principal_dir (DkR p 2 t0)).
Proof.
  intros p H1 H2. unfold unit_tangent_fallback.
  pose proof (cdot_pos H2) as P2.
  rewrite (@crational_limit_spec 2); cycle 1.
  - unfold p. rewrite (quad_glen NR). lia.
  - intros j Hj. destruct j as [|[|j]]; [| |lia].
    + cbn [iter]. unfold p. rewrite (quad_g0 NR NumR_ok), (quad_f0 NR NumR_ok). fold p. rewrite H1.
      rewrite cdot0, cmul0. auto.
    + unfold p. rewrite (quad_g1 NR NumR_ok), (quad_f1 NR NumR_ok). fold p. rewrite H1.
      rewrite cdot0, cmul0, cscale0. split; [cbn; ring|reflexivity].
  - unfold p. rewrite (quad_g2 NR NumR_ok). fold p. rewrite two_R. cbn [mul NumR]. lra.
  - cbn [res_map]. f_equal. unfold principal_dir. f_equal.
    unfold p. rewrite (quad_g2 NR NumR_ok), (quad_f2 NR NumR_ok). fold p. rewrite two_R. cbn [mul NumR].
    apply sq_over_norm2; [exact H2|lra].
Qed.
