(* Proofs/ArcDeriv.v — Arc.derivative(t, n) versus the n-th t-derivative of
   Arc.point(t) (Coquelicot), for every n >= 1.
   Result: the code is right for n mod 4 in {1,2,3}; for n mod 4 = 0 it
   returns the n-th derivative WITHOUT the chain-rule factor (delta*pi/180)^n. *)
From Coq Require Import ZArith List Bool Reals Lra Lia Psatz.
From Coquelicot Require Import Coquelicot.
From SVP Require Import Base.Num Base.Cplx Model.Arc Proofs.ArcR.
Local Open Scope R_scope.

Lemma npow_R x n : npow NumR x n = x ^ n.
Proof. induction n; cbn [npow pow one mul NumR]; [reflexivity|]. now rewrite IHn. Qed.

Section D.
  Variable Q : ArcP R.
  (* the stored rot_matrix is exp(i*radians(rotation)), as __init__ sets it *)
  Hypothesis Hrot : a_rot Q = arc_rotm_of NumTR (a_rotation Q).

  Let k := a_delta Q * PI / 180.
  Let A (t : R) := (a_theta Q + t * a_delta Q) * PI / 180.
  Let rx := fst (a_radius Q).
  Let ry := snd (a_radius Q).
  Let c := cos (a_rotation Q * PI / 180).
  Let s := sin (a_rotation Q * PI / 180).

  (* the family  a cos A(t) + b sin A(t) + c0  is closed under d/dt *)
  Definition G (a b c0 t : R) : R := a * cos (A t) + b * sin (A t) + c0.
  Definition step (ab : R * R) : R * R := (k * snd ab, - k * fst ab).
  Fixpoint it (n : nat) (ab : R * R) : R * R :=
    match n with O => ab | S m => step (it m ab) end.

  Lemma G_is_derive a b c0 t : is_derive (G a b c0) t (G (k * b) (- k * a) 0 t).
  Proof.
    unfold G, A, k. auto_derive; [trivial|]. unfold Rdiv. ring.
  Qed.

  Lemma G_Derive_n n : forall a b c0 t,
    Derive_n (G a b c0) n t =
    G (fst (it n (a, b))) (snd (it n (a, b))) (match n with O => c0 | _ => 0 end) t.
  Proof.
    induction n; intros a b c0 t.
    - reflexivity.
    - cbn [Derive_n it step].
      rewrite (Derive_ext _ _ t (fun u => IHn a b c0 u)).
      apply is_derive_unique. apply G_is_derive.
  Qed.

  Lemma G_is_derive_n n a b c0 t : (1 <= n)%nat ->
    is_derive_n (G a b c0) n t (G (fst (it n (a, b))) (snd (it n (a, b))) 0 t).
  Proof.
    destruct n as [|m]; [lia|]. intros _. cbn [is_derive_n it step].
    apply (is_derive_ext (G (fst (it m (a, b))) (snd (it m (a, b))) (match m with O => c0 | _ => 0%R end))).
    - intros u. symmetry. apply G_Derive_n.
    - apply G_is_derive.
  Qed.

  (* closed form of the iteration, period 4 *)
  Lemma it_add m n ab : it (m + n) ab = it m (it n ab).
  Proof. induction m; cbn [it Nat.add]; [reflexivity|]. now rewrite IHm. Qed.
  Lemma it4 ab : it 4 ab = (k ^ 4 * fst ab, k ^ 4 * snd ab).
  Proof. destruct ab as [a b]. cbn [it]; unfold step; cbn [fst snd]. apply cplx_eq; cbn [fst snd]; ring. Qed.
  Lemma it_scale m x ab : it m (x * fst ab, x * snd ab) = (x * fst (it m ab), x * snd (it m ab)).
  Proof. induction m; cbn [it]; [reflexivity|]. rewrite IHm. unfold step. cbn [fst snd]. apply cplx_eq; cbn [fst snd]; ring. Qed.
  Lemma it_4q q ab : it (4 * q) ab = (k ^ (4 * q) * fst ab, k ^ (4 * q) * snd ab).
  Proof.
    induction q.
    - cbn. destruct ab; cbn [fst snd]. apply cplx_eq; cbn [fst snd]; ring.
    - replace (4 * S q)%nat with (4 + 4 * q)%nat by lia. rewrite it_add, IHq, it4. cbn [fst snd].
      rewrite pow_add. apply cplx_eq; cbn [fst snd]; ring.
  Qed.
  Lemma it_mod q r ab : it (4 * q + r) ab = (k ^ (4 * q) * fst (it r ab), k ^ (4 * q) * snd (it r ab)).
  Proof. rewrite Nat.add_comm, it_add, it_4q. apply it_scale. Qed.

  (* point(t) componentwise is in the family *)
  Lemma point_x t : fst (arc_point NumR NumTR Q t) = G (rx * c) (- (ry * s)) (fst (a_center Q)) t.
  Proof. unfold arc_point, G, A. rewrite Hrot. unfold arc_rotm_of, arc_rotm, arc_phi. rsimp.
    fold rx ry c s. ring. Qed.
  Lemma point_y t : snd (arc_point NumR NumTR Q t) = G (rx * s) (ry * c) (snd (a_center Q)) t.
  Proof. unfold arc_point, G, A. rewrite Hrot. unfold arc_rotm_of, arc_rotm, arc_phi. rsimp.
    fold rx ry c s. ring. Qed.

  (* the true n-th derivative of point(t), n >= 1 *)
  Definition true_dx (n : nat) (t : R) : R :=
    G (fst (it n (rx * c, - (ry * s)))) (snd (it n (rx * c, - (ry * s)))) 0 t.
  Definition true_dy (n : nat) (t : R) : R :=
    G (fst (it n (rx * s, ry * c))) (snd (it n (rx * s, ry * c))) 0 t.
  Lemma point_is_derive_n n t : (1 <= n)%nat ->
    is_derive_n (fun u => fst (arc_point NumR NumTR Q u)) n t (true_dx n t) /\
    is_derive_n (fun u => snd (arc_point NumR NumTR Q u)) n t (true_dy n t).
  Proof.
    intros Hn. split.
    - apply (is_derive_n_ext (G (rx * c) (- (ry * s)) (fst (a_center Q)))).
      + intros u. symmetry. apply point_x.
      + apply G_is_derive_n. exact Hn.
    - apply (is_derive_n_ext (G (rx * s) (ry * c) (snd (a_center Q)))).
      + intros u. symmetry. apply point_y.
      + apply G_is_derive_n. exact Hn.
  Qed.

  Lemma zpow_R x n : (0 <= n)%Z -> zpow NumR x n = x ^ Z.to_nat n.
  Proof.
    destruct n as [|p|p]; intros H; [reflexivity| |lia].
    cbn [zpow]. rewrite npow_R. reflexivity.
  Qed.

  (* what the code returns, against the true derivative *)
  Lemma arc_deriv_vs_true dfx t n : (1 <= n)%Z ->
    exists d, arc_deriv NumR NumTR dfx Q t n = Some d /\
      let f := if Z.eqb (Z.modulo n 4) 0 && negb dfx then k ^ Z.to_nat n else 1 in
      true_dx (Z.to_nat n) t = f * fst d /\ true_dy (Z.to_nat n) t = f * snd d.
  Proof.
    intros Hn.
    pose proof (Z.mod_pos_bound n 4 ltac:(lia)) as Hb.
    pose proof (Z.div_mod n 4 ltac:(lia)) as Hdm.
    set (q := Z.to_nat (n / 4)). 
    assert (Hq : (0 <= n / 4)%Z) by (apply Z.div_pos; lia).
    unfold arc_deriv. rewrite zpow_R by lia.
    unfold true_dx, true_dy, G.
    change (radians_ NumTR (a_theta Q + t * a_delta Q)%R) with (A t).
    set (ca := cos (A t)). set (sa := sin (A t)).
    rsimp. fold rx ry c s k.
    change ((a_theta Q + t * a_delta Q) * PI / 180) with (A t). fold ca sa.
    destruct (Z.eqb_spec (n mod 4) 0) as [E0|E0].
    { assert (Z.gtb n 0 = true) as -> by lia. cbn [andb].
      replace (Z.to_nat n) with (4 * q + 0)%nat by (unfold q; lia).
      destruct dfx; cbn [negb]; (eexists; split; [reflexivity|]); cbn [fst snd];
      rewrite !it_mod; cbn [it fst snd]; rewrite Nat.add_0_r; split; ring. }
    cbn [andb].
    destruct (Z.eqb_spec (n mod 4) 1) as [E1|E1].
    { eexists; split; [reflexivity|]. cbn [fst snd].
      replace (Z.to_nat n) with (4 * q + 1)%nat by (unfold q; lia).
      rewrite !it_mod. cbn [it]; unfold step; cbn [fst snd]. rewrite pow_add. split; ring. }
    destruct (Z.eqb_spec (n mod 4) 2) as [E2|E2].
    { eexists; split; [reflexivity|]. cbn [fst snd].
      replace (Z.to_nat n) with (4 * q + 2)%nat by (unfold q; lia).
      rewrite !it_mod. cbn [it]; unfold step; cbn [fst snd]. rewrite pow_add. split; ring. }
    destruct (Z.eqb_spec (n mod 4) 3) as [E3|E3]; [|lia].
    { eexists; split; [reflexivity|]. cbn [fst snd].
      replace (Z.to_nat n) with (4 * q + 3)%nat by (unfold q; lia).
      rewrite !it_mod. cbn [it]; unfold step; cbn [fst snd]. rewrite pow_add. split; ring. }
  Qed.

  (* C04_deriv for n mod 4 <> 0 (either variant) *)
  Lemma arc_deriv_correct dfx t n : (1 <= n)%Z -> (n mod 4 <> 0)%Z ->
    exists d, arc_deriv NumR NumTR dfx Q t n = Some d /\
      is_derive_n (fun u => fst (arc_point NumR NumTR Q u)) (Z.to_nat n) t (fst d) /\
      is_derive_n (fun u => snd (arc_point NumR NumTR Q u)) (Z.to_nat n) t (snd d).
  Proof.
    intros Hn Hm. destruct (arc_deriv_vs_true dfx t n Hn) as [d [E [X Y]]].
    exists d. split; [exact E|].
    destruct (Z.eqb_spec (n mod 4) 0); [contradiction|]. cbn [andb] in X, Y. cbn zeta in X, Y.
    rewrite Rmult_1_l in X, Y. rewrite <- X, <- Y.
    apply point_is_derive_n. lia.
  Qed.

  (* C04_deriv, FULL, for the repaired variant: every n >= 1 *)
  Lemma arc_deriv_full t n : (1 <= n)%Z ->
    exists d, arc_deriv NumR NumTR true Q t n = Some d /\
      is_derive_n (fun u => fst (arc_point NumR NumTR Q u)) (Z.to_nat n) t (fst d) /\
      is_derive_n (fun u => snd (arc_point NumR NumTR Q u)) (Z.to_nat n) t (snd d).
  Proof.
    intros Hn. destruct (arc_deriv_vs_true true t n Hn) as [d [E [X Y]]].
    exists d. split; [exact E|].
    rewrite Bool.andb_false_r in X, Y. cbn zeta in X, Y.
    rewrite Rmult_1_l in X, Y. rewrite <- X, <- Y.
    apply point_is_derive_n. lia.
  Qed.

  (* ... and for n mod 4 = 0 the returned value lacks the factor k^n *)
  Lemma arc_deriv_mod4_0 t n : (1 <= n)%Z -> (n mod 4 = 0)%Z ->
    exists d, arc_deriv NumR NumTR false Q t n = Some d /\
      is_derive_n (fun u => fst (arc_point NumR NumTR Q u)) (Z.to_nat n) t (k ^ Z.to_nat n * fst d) /\
      is_derive_n (fun u => snd (arc_point NumR NumTR Q u)) (Z.to_nat n) t (k ^ Z.to_nat n * snd d).
  Proof.
    intros Hn Hm. destruct (arc_deriv_vs_true false t n Hn) as [d [E [X Y]]].
    exists d. split; [exact E|].
    destruct (Z.eqb_spec (n mod 4) 0); [|contradiction]. cbn [andb negb] in X, Y. cbn zeta in X, Y.
    rewrite <- X, <- Y. apply point_is_derive_n. lia.
  Qed.

  (* n <= 0: the code raises only when n mod 4 = 0 *)
  Lemma arc_deriv_raises dfx t n : (n <= 0)%Z -> (n mod 4 = 0)%Z -> arc_deriv NumR NumTR dfx Q t n = None.
  Proof.
    intros Hn Hm. unfold arc_deriv. rewrite Hm. cbn [Z.eqb].
    assert (Z.gtb n 0 = false) as -> by lia. reflexivity.
  Qed.
End D.

(* ------------------------------------------------------------------ *)
(* consistency of the stored rot_matrix holds for every constructed arc *)
Lemma arc_init_rot fx start radius rotation large sweep end_ :
  let P := arc_init_v NumR NumTR fx start radius rotation large sweep end_ in
  a_rot P = arc_rotm_of NumTR (a_rotation P).
Proof. reflexivity. Qed.

(* witness for the refutation: the upper unit half circle from 1 to -1,
   Arc(start=1, radius=1+1j, rotation=0, large_arc=0, sweep=1, end=-1) *)
Definition Wstart : Cplx R := (1, 0).
Definition Wend : Cplx R := (-1, 0).
Definition Wrad : Cplx R := (1, 1).
Definition W : ArcP R := arc_init_v NumR NumTR false Wstart Wrad 0 false true Wend.

Lemma W_adm : Wstart <> Wend /\ fst Wrad <> 0 /\ snd Wrad <> 0.
Proof. unfold Wstart, Wend, Wrad. cbn [fst snd]. repeat split; try lra. intros H. inversion H. lra. Qed.

Lemma W_rc : arc_rc_of NumR NumTR Wstart Wrad 0 Wend = 1.
Proof.
  destruct W_adm as [A [B C]].
  rewrite (rc0_eq Wstart Wrad Wend 0). rewrite (z_eq Wstart Wend 0), (r0_eq Wrad).
  unfold arc_rc, arc_phi, Wstart, Wend, Wrad. rsimp.
  replace (0 * PI / 180) with 0 by field. rewrite cos_0, sin_0, Rabs_R1. field.
Qed.

Lemma W_radius : a_radius W = (1, 1).
Proof.
  destruct W_adm as [A [B C]]. unfold W.
  rewrite (arc_unscaled Wstart Wrad Wend 0 false true false) by (rewrite W_rc; lra).
  unfold Wrad. cbn [fst snd]. now rewrite Rabs_R1.
Qed.

Lemma W_delta : a_delta W = 180.
Proof.
  destruct W_adm as [A [B C]].
  destruct (arc_delta_cases Wstart Wrad Wend 0 false true false A B C) as [[_ H]|[H _]].
  - exact H.
  - exfalso. apply (radical_pos_iff Wstart Wrad Wend 0 false A B C) in H.
    rewrite (radicand_scaled Wstart Wrad Wend 0 A B C) in H by (rewrite W_rc; lra).
    pose proof (snap_thr_of_ge0 false). lra.
Qed.

Lemma PI4_gt_1 : 1 < PI ^ 4.
Proof. pose proof PI2_3_2 as H. unfold PI2 in H. assert (3 < PI) by lra.
  replace (PI ^ 4) with ((PI * PI) * (PI * PI)) by ring.
  assert (9 < PI * PI) by nra. nra. Qed.

(* C04_deriv is refuted for n = 4: on the half circle W the value returned by
   derivative(t, 4) is not the 4th derivative of point at t0 = -theta/180 *)
Lemma arc_deriv4_refuted :
  exists t d, arc_deriv NumR NumTR false W t 4 = Some d /\
    ~ is_derive_n (fun u => fst (arc_point NumR NumTR W u)) 4 t (fst d).
Proof.
  set (t0 := - a_theta W / 180).
  destruct (arc_deriv_mod4_0 W (arc_init_rot _ _ _ _ _ _ _) t0 4 ltac:(lia) ltac:(reflexivity))
    as [d [E [X _]]].
  exists t0, d. split; [exact E|]. intros H.
  change (Z.to_nat 4) with 4%nat in X.
  pose proof (is_derive_n_unique _ _ _ _ H) as U1.
  pose proof (is_derive_n_unique _ _ _ _ X) as U2.
  rewrite U1 in U2.
  (* fst d = 1 *)
  assert (Hd : fst d = 1).
  { pose proof W_radius as HR. pose proof W_delta as HD.
    assert (HRo : a_rotation W = 0) by reflexivity.
    clear X H U1 U2. unfold t0 in *. clear t0. set (w := W) in *. clearbody w.
    unfold arc_deriv in E. change (Z.eqb (4 mod 4) 0 && Z.gtb 4 0) with true in E.
    cbv iota in E. injection E as <-. cbn [fst snd].
    rewrite HR, HD, HRo. rsimp.
    replace (0 * PI / 180) with 0 by field.
    replace ((a_theta w + - a_theta w / 180 * 180) * PI / 180) with 0 by field.
    rewrite cos_0, sin_0. ring. }
  rewrite Hd, W_delta in U2.
  replace (180 * PI / 180) with PI in U2 by field.
  pose proof PI4_gt_1. lra.
Qed.
