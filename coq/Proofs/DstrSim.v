(* Proofs/DstrSim.v — parsing what Path.d wrote: one segment.

   The model of _parse_path (Model/Parse.v, any of its four variants) is run
   over the commands the model of Path.d (Model/Dstr.v, any of its eight
   variants) writes for one segment, from a parser state that is related to
   the serialiser's loop variables; the segment appended by the parser is the
   segment serialised, up to `==` on its start (and on the control point a
   shorthand left out), and the relation between the states is re-established.
   Proofs/DstrLoop.v iterates this over paths of any length. *)
From Coq Require Import List Bool Arith Lia.
From SVP Require Import Base.Num Base.Cplx Model.Parse Model.Dstr
     Proofs.ParseRefine Proofs.DstrRun Proofs.DstrLaws.
Import ListNotations.

Section Sim.
  Context {K : Type} (N : Num K) (E : EqbOK N).
  Variables none_ok coinc_ok : bool.
  Variables sfix useST rel : bool.
  Notation pt := (Cplx K).
  Notation pstate := (@pstate K).
  Notation exec_cmd := (exec_cmd N none_ok coinc_ok).
  Notation smooth_c1 := (smooth_c1 N none_ok).
  Notation t_ctrl := (t_ctrl N none_ok).
  Notation eqv a b := (ceqb N a b = true).

  (* relative forms need an exact carrier *)
  Hypothesis HR : rel = false \/ ExactOK N.
  (* the shorthands need the repaired test (and, for chains of T, SubCongOK),
     or an exact carrier in which the test as written implies the reflection *)
  Hypothesis HS : useST = false \/ (sfix = true /\ SubCongOK N) \/ (LeibnizOK N /\ ReflectOK N).

  (* a = what the parser built, b = the segment that was serialised *)
  Definition seg_sim (a b : seg K) : Prop :=
    match a, b with
    | Line s' e', Line s e => eqv s' s /\ eqv e' e
    | Quad s' c' e', Quad s c e => eqv s' s /\ eqv c' c /\ e' = e
    | Cubic s' c1' c2' e', Cubic s c1 c2 e => eqv s' s /\ eqv c1' c1 /\ c2' = c2 /\ e' = e
    | Arc s' r' rot' la' sw' e', Arc s r rot la sw e =>
        eqv s' s /\ r' = r /\ rot' = rot /\ la' = la /\ sw' = sw /\ e' = e
    | _, _ => False
    end.

  (* the parser's `command` after it has read the part written for g *)
  Definition cmd_ok (c : option cmdletter) (g : seg K) : Prop :=
    match g with
    | Line _ _ => c = Some cL
    | Quad _ _ _ => c = Some cQ \/ c = Some cT
    | Cubic _ _ _ _ => c = Some cC \/ c = Some cS
    | Arc _ _ _ _ _ _ => c = Some cA
    end.

  Lemma raise_lower cur ss x :
    eqv cur ss -> raise N (negb rel) cur (lower N rel ss x) = x.
  Proof.
    intros H. destruct HR as [->|X]; [reflexivity|].
    destruct rel; [|reflexivity]. cbn [negb raise lower].
    apply (ceqb_eq N (ex_lz N X)) in H. subst. apply (csub_cadd N X).
  Qed.

  (* the parser's state continues the serialiser's previous segment gp *)
  Record Follows (gp : seg K) (st : pstate) : Prop := {
    fo_cur : p_cur st = seg_end gp;
    fo_cmd : cmd_ok (p_cmd st) gp;
    fo_head : exists gp' rest, p_segs st = gp' :: rest /\ seg_sim gp' gp }.

  (* what the parser will take as the control point the shorthand leaves out *)
  Definition ctl_ok (prev : option (seg K)) (g : seg K) (st : pstate) : Prop :=
    shorthand N useST sfix prev g = true ->
    match g with
    | Cubic _ c1 _ _ => exists c1', smooth_c1 st = Ok c1' /\ eqv c1' c1
    | Quad _ c _ => exists c', t_ctrl st = Ok c' /\ eqv c' c
    | _ => True
    end.

  Lemma sub_reflect_c (X : LeibnizOK N) (Rf : ReflectOK N) (c s pc : pt) :
    ceqb N (csub N c s) (csub N s pc) = true -> csub N (cadd N s s) pc = c.
  Proof.
    intros H. apply (ceqb_eq N X) in H. destruct c, s, pc.
    unfold csub, cadd, re, im in *; cbn [fst snd] in *. inversion H.
    f_equal; apply Rf; assumption.
  Qed.
  Lemma sub_cong_c (Sc : SubCongOK N) (a b b' x : pt) :
    eqv b b' -> eqv (csub N a b) x -> eqv (csub N a b') x.
  Proof.
    unfold ceqb, csub, re, im; cbn [fst snd]. intros H G.
    apply andb_true_iff in H, G. destruct H as [H1 H2], G as [G1 G2].
    rewrite (Sc _ _ _ _ H1 G1), (Sc _ _ _ _ H2 G2). reflexivity.
  Qed.

  (* directly after the parser has read an 'M': command = 'L' *)
  Lemma ctl_after_move prev g st :
    p_cmd st = Some cL -> p_cur st = seg_start g -> pfin N (seg_start g) = true ->
    (shorthand N useST sfix prev g = true -> shorthand N useST sfix None g = true) ->
    ctl_ok prev g st.
  Proof.
    intros Hc Hcur Hf Himp Hs. specialize (Himp Hs).
    destruct g as [s e|s c e|s c1 c2 e|s r rot la sw e]; try exact I; cbn [seg_start] in *.
    - exists s. unfold DstrRun.t_ctrl. rewrite Hc, Hcur. cbn. split; [reflexivity|].
      cbn [shorthand quad_smooth] in Himp. apply andb_true_iff in Himp.
      apply (ceqb_sym N E), Himp.
    - exists s. unfold DstrRun.smooth_c1. rewrite Hc, Hcur. cbn. split; [reflexivity|].
      cbn [shorthand cubic_smooth] in Himp. apply andb_true_iff in Himp.
      apply (ceqb_sym N E), Himp.
  Qed.

  (* no 'M' in between: the parser continues the previous segment *)
  Lemma ctl_follows gp g st :
    Follows gp st -> eqv (p_cur st) (seg_start g) -> ctl_ok (Some gp) g st.
  Proof.
    intros [Hcur Hcmd (gp' & rest & Hsegs & Hsim)] Hss Hs.
    assert (Hu : useST = true).
    { destruct g; cbn [shorthand] in Hs; try discriminate; apply andb_true_iff in Hs; apply Hs. }
    destruct g as [s e|s c e|s c1 c2 e|s r rot la sw e]; try exact I; cbn [seg_start] in *;
      cbn [shorthand] in Hs; apply andb_true_iff in Hs; destruct Hs as [_ Hs].
    - (* T *)
      unfold DstrRun.t_ctrl. rewrite Hsegs.
      destruct gp as [ps pe|ps pc pe|ps pc1 pc2 pe|ps pr prot pla psw pe];
        destruct gp' as [s' e'|s' c' e'|s' c1' c2' e'|s' r' rot' la' sw' e']; try (exfalso; exact Hsim);
        cbn [cmd_ok seg_end quad_smooth] in *.
      + exists (p_cur st). rewrite Hcmd. cbn. split; [reflexivity|].
        exact (ceqb_trans N E _ _ _ Hss (ceqb_sym N E _ _ Hs)).
      + destruct Hsim as (_ & Hc' & He'). subst e'.
        apply andb_true_iff in Hs. destruct Hs as [Hse Ht].
        exists (csub N (cadd N (p_cur st) (p_cur st)) c'). split.
        * destruct Hcmd as [-> | ->]; reflexivity.
        * rewrite Hcur. destruct HS as [Hn|[[Hf Sc]|[X Rf]]]; [congruence| |].
          -- rewrite Hf in Ht. apply (sub_cong_c Sc _ pc c' c (ceqb_sym N E _ _ Hc')).
             apply (ceqb_sym N E), Ht.
          -- apply (ceqb_eq N X) in Hc', Hse. subst c' s.
             destruct sfix.
             ++ apply (ceqb_sym N (leibniz_eqb_ok N X)), Ht.
             ++ rewrite (sub_reflect_c X Rf c pe pc Ht). apply (ceqb_eq N X). reflexivity.
      + exists (p_cur st). destruct Hcmd as [-> | ->]; cbn; (split; [reflexivity|]);
          exact (ceqb_trans N E _ _ _ Hss (ceqb_sym N E _ _ Hs)).
      + exists (p_cur st). rewrite Hcmd. cbn. split; [reflexivity|].
        exact (ceqb_trans N E _ _ _ Hss (ceqb_sym N E _ _ Hs)).
    - (* S *)
      unfold DstrRun.smooth_c1. rewrite Hsegs.
      destruct gp as [ps pe|ps pc pe|ps pc1 pc2 pe|ps pr prot pla psw pe];
        destruct gp' as [s' e'|s' c' e'|s' c1' c2' e'|s' r' rot' la' sw' e']; try (exfalso; exact Hsim);
        cbn [cmd_ok seg_end cubic_smooth] in *.
      + exists (p_cur st). rewrite Hcmd. cbn. split; [reflexivity|].
        exact (ceqb_trans N E _ _ _ Hss (ceqb_sym N E _ _ Hs)).
      + exists (p_cur st). destruct Hcmd as [-> | ->]; cbn; (split; [reflexivity|]);
          exact (ceqb_trans N E _ _ _ Hss (ceqb_sym N E _ _ Hs)).
      + destruct Hsim as (_ & _ & Hc2' & He'). subst e' c2'.
        apply andb_true_iff in Hs. destruct Hs as [Hse Ht].
        exists (csub N (cadd N (p_cur st) (p_cur st)) pc2). split.
        * destruct Hcmd as [-> | ->]; reflexivity.
        * rewrite Hcur. destruct HS as [Hn|[[Hf Sc]|[X Rf]]]; [congruence| |].
          -- rewrite Hf in Ht. apply (ceqb_sym N E), Ht.
          -- apply (ceqb_eq N X) in Hse. subst s.
             destruct sfix.
             ++ apply (ceqb_sym N (leibniz_eqb_ok N X)), Ht.
             ++ rewrite (sub_reflect_c X Rf c1 pe pc2 Ht). apply (ceqb_eq N X). reflexivity.
      + exists (p_cur st). rewrite Hcmd. cbn. split; [reflexivity|].
        exact (ceqb_trans N E _ _ _ Hss (ceqb_sym N E _ _ Hs)).
  Qed.

  (* the part written for g, read from a state whose current point == g's start *)
  Lemma seg_exec prev g st :
    seg_wf N g = true -> eqv (p_cur st) (seg_start g) -> ctl_ok prev g st ->
    exists st' g',
      exec_cmd (emit_seg N useST sfix rel prev g) st = Ok st'
      /\ p_segs st' = g' :: p_segs st /\ seg_sim g' g
      /\ p_start st' = p_start st /\ Follows g st'.
  Proof.
    intros W Hss Hctl. unfold seg_wf in W. apply andb_true_iff in W. destruct W as [Wf W].
    pose proof (raise_lower (p_cur st) (seg_start g)) as RL.
    destruct g as [s e|s c e|s c1 c2 e|s r rot la sw e]; cbn [seg_start emit_seg] in *.
    - (* Line *)
      rewrite exec_line. cbn zeta. rewrite RL by exact Hss.
      eexists; eexists. split; [reflexivity|]. cbn [p_segs p_start p_cur p_cmd].
      cbn [seg_fin] in Wf. apply andb_true_iff in Wf. destruct Wf as [_ Fe].
      split; [reflexivity|]. split; [split; [exact Hss|exact Fe]|]. split; [reflexivity|].
      split; cbn; [reflexivity|reflexivity|].
      eexists; eexists. split; [reflexivity|]. split; [exact Hss|exact Fe].
    - (* Quad *)
      cbn [seg_fin] in Wf. apply andb_true_iff in Wf. destruct Wf as [Wf Fe].
      apply andb_true_iff in Wf. destruct Wf as [Fs Fc].
      unfold ctl_ok in Hctl. cbn [shorthand] in Hctl.
      destruct (useST && quad_smooth N sfix prev s c) eqn:Sh.
      + destruct (Hctl eq_refl) as (c' & Ec & Hc).
        rewrite exec_t, Ec. cbn zeta. rewrite RL by exact Hss.
        eexists; eexists. split; [reflexivity|]. cbn [p_segs p_start p_cur p_cmd].
        split; [reflexivity|]. split; [repeat split; assumption|]. split; [reflexivity|].
        split; cbn; [reflexivity|right; reflexivity|].
        eexists; eexists. split; [reflexivity|]. repeat split; assumption.
      + rewrite exec_quad. cbn zeta. rewrite !RL by exact Hss.
        eexists; eexists. split; [reflexivity|]. cbn [p_segs p_start p_cur p_cmd].
        split; [reflexivity|]. split; [repeat split; assumption|]. split; [reflexivity|].
        split; cbn; [reflexivity|left; reflexivity|].
        eexists; eexists. split; [reflexivity|]. repeat split; assumption.
    - (* Cubic *)
      cbn [seg_fin] in Wf. apply andb_true_iff in Wf. destruct Wf as [Wf Fe].
      apply andb_true_iff in Wf. destruct Wf as [Wf Fc2].
      apply andb_true_iff in Wf. destruct Wf as [Fs Fc1].
      unfold ctl_ok in Hctl. cbn [shorthand] in Hctl.
      destruct (useST && cubic_smooth N sfix prev s c1) eqn:Sh.
      + destruct (Hctl eq_refl) as (c1' & Ec & Hc).
        rewrite exec_smooth, Ec. cbn zeta. rewrite !RL by exact Hss.
        eexists; eexists. split; [reflexivity|]. cbn [p_segs p_start p_cur p_cmd].
        split; [reflexivity|]. split; [repeat split; assumption|]. split; [reflexivity|].
        split; cbn; [reflexivity|right; reflexivity|].
        eexists; eexists. split; [reflexivity|]. repeat split; assumption.
      + rewrite exec_curve. cbn zeta. rewrite !RL by exact Hss.
        eexists; eexists. split; [reflexivity|]. cbn [p_segs p_start p_cur p_cmd].
        split; [reflexivity|]. split; [repeat split; assumption|]. split; [reflexivity|].
        split; cbn; [reflexivity|left; reflexivity|].
        eexists; eexists. split; [reflexivity|]. repeat split; assumption.
    - (* Arc *)
      repeat (apply andb_true_iff in W; destruct W as [W ?]).
      repeat match goal with H : negb _ = true |- _ => apply negb_true_iff in H end.
      rewrite exec_arc. cbn zeta. rewrite RL by exact Hss.
      assert (A : arc_or_line N coinc_ok (p_cur st) r rot (if la then one N else zero N)
                              (if sw then one N else zero N) e
                  = Ok [Arc (p_cur st) r rot la sw e]).
      { unfold arc_or_line. rewrite !(flag_roundtrip N E).
        rewrite (ceqb_cong_l N E _ _ e Hss), W.
        replace (eqb N (re r) (zero N)) with false by (symmetry; assumption).
        replace (eqb N (im r) (zero N)) with false by (symmetry; assumption).
        unfold nabs.
        replace (ltb N (re r) (zero N)) with false by (symmetry; assumption).
        replace (ltb N (im r) (zero N)) with false by (symmetry; assumption).
        cbn [orb]. destruct r. destruct coinc_ok; reflexivity. }
      rewrite A.
      eexists; eexists. split; [reflexivity|]. cbn [p_segs p_start p_cur p_cmd app].
      split; [reflexivity|]. split; [repeat split; assumption|]. split; [reflexivity|].
      split; cbn; [reflexivity|reflexivity|].
      eexists; eexists. split; [reflexivity|]. repeat split; assumption.
  Qed.
End Sim.
