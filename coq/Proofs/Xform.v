(* Proofs/Xform.v — the Bezier kernels of translate / rotate / scale / transform
   commute with point evaluation.  Generic: any carrier satisfying NumFieldOK
   (a field of characteristic 0), hence R, Q and every instance at once.

   Architecture: a map A of the plane that preserves affine combinations
   (A((1-t)a + t b) = (1-t)A a + t A b) commutes with one de Casteljau step, hence
   (DeCasteljau.dc_step_bern) with the Bernstein curve of EVERY degree
   (bern_affine_all).  The four point maps of the code are of that kind (ring),
   and scale_bezier — which goes through bez2poly, _scale, the constant-term
   correction and poly2bez — is shown equal to scaling every control point about
   origin (field; degrees 1, 2, 3, the only ones poly2bez accepts). *)
From Coq Require Import ZArith List Bool Field Lia Arith.
From SVP Require Import Base.Num Base.Cplx Base.Poly Base.FieldTac
     Model.Bezier Model.BezierN Model.Arc Model.Xform Proofs.BezierAlg Proofs.DeCasteljau.
Import ListNotations.

Section XF.
  Context {K : Type} (N : Num K) (OK : NumFieldOK N).
  Add Field KF : (Fth OK).

  Local Notation "x + y" := (cadd N x y).
  Local Notation "r ** z" := (cscale N r z) (at level 40, left associativity).
  Local Notation om t := (sub N (one N) t).
  Local Notation C := (Cplx K).

  Ltac cring := intros; destruct_cplx; cunfold; apply cplx_eq; cbn [fst snd]; ring.

  (* ---------------------------------------------------------------- *)
  (* maps preserving affine combinations                                *)
  (* ---------------------------------------------------------------- *)
  Definition affine_comb (A : C -> C) : Prop :=
    forall t a b, A (om t ** a + t ** b) = om t ** A a + t ** A b.

  Lemma dc_step_affine {A : C -> C} : affine_comb A ->
    forall p t, dc_step N (map A p) t = map A (dc_step N p t).
  Proof.
    intros HA p t. induction p as [|a p IH]; [reflexivity|].
    destruct p as [|b r]; [reflexivity|].
    cbn [map]. rewrite !dc_step_cons2. cbn [map] in IH. rewrite IH.
    cbn [map]. now rewrite HA.
  Qed.

  Lemma bern_affine_len {A : C -> C} : affine_comb A ->
    forall n p t, length p = S n -> bern N (map A p) t = A (bern N p t).
  Proof.
    intros HA n. induction n as [|n IH]; intros p t Hl.
    - destruct p as [|a [|b r]]; cbn [length] in Hl; try lia.
      cbn [map]. now rewrite !(bern_single N OK).
    - rewrite (dc_step_bern N OK (map A p) t) by (rewrite map_length; lia).
      rewrite (dc_step_bern N OK p t) by lia.
      rewrite (dc_step_affine HA). apply IH.
      rewrite length_dc_step. lia.
  Qed.

  (* every degree: the Bernstein curve of the mapped control points is the
     mapped Bernstein curve *)
  Theorem bern_affine_all {A : C -> C} : affine_comb A ->
    forall p t, p <> [] -> bern N (map A p) t = A (bern N p t).
  Proof.
    intros HA p t Hp. destruct p as [|a r]; [contradiction|].
    apply (bern_affine_len HA (length r)). reflexivity.
  Qed.

  (* ---------------------------------------------------------------- *)
  (* the code's point(t) for 2, 3, 4 control points                     *)
  (* ---------------------------------------------------------------- *)
  Definition wf_bez (p : list C) : Prop := length p = 2%nat \/ length p = 3%nat \/ length p = 4%nat.

  Lemma bez_point_bern p t : wf_bez p -> bez_point N p t = bern N p t.
  Proof.
    intros [H|[H|H]]; destruct p as [|a [|b [|c [|d [|e r]]]]]; cbn [length] in H; try lia;
      cbn [bez_point].
    - apply (line_point_bern N OK).
    - apply (quad_point_bern N OK).
    - apply (cubic_point_bern N OK).
  Qed.

  Lemma wf_map (A : C -> C) p : wf_bez p -> wf_bez (map A p).
  Proof. unfold wf_bez. now rewrite map_length. Qed.
  Lemma wf_nonempty p : wf_bez p -> p <> [].
  Proof. intros [H|[H|H]] E; subst p; cbn in H; lia. Qed.

  Theorem bez_point_affine {A : C -> C} : affine_comb A ->
    forall p t, wf_bez p -> bez_point N (map A p) t = A (bez_point N p t).
  Proof.
    intros HA p t Hw.
    rewrite (bez_point_bern _ t (wf_map A p Hw)), (bez_point_bern _ t Hw).
    apply (bern_affine_all HA), (wf_nonempty p Hw).
  Qed.

  Lemma bpoints2bezier_wf p : wf_bez p -> bpoints2bezier p = XOk p.
  Proof.
    intros [H|[H|H]]; destruct p as [|a [|b [|c [|d [|e r]]]]]; cbn [length] in H; try lia; reflexivity.
  Qed.

  (* ---------------------------------------------------------------- *)
  (* the four point maps preserve affine combinations                   *)
  (* ---------------------------------------------------------------- *)
  Lemma translate_affine z0 : affine_comb (fun b => b + z0).
  Proof. unfold affine_comb. cring. Qed.
  Lemma rotate_affine cs origin : affine_comb (rotate_point N cs origin).
  Proof. unfold affine_comb, rotate_point. cring. Qed.
  Lemma scale_affine sx sy origin : affine_comb (scale_point N sx sy origin).
  Proof. unfold affine_comb, scale_point, scale_c. destruct sy; cring. Qed.
  Lemma tf_affine (M : Mat3 K) : affine_comb (tf_point N M).
  Proof.
    destruct M as [[[[m00 m01] m02] [[m10 m11] m12]] [[m20 m21] m22]].
    unfold affine_comb, tf_point. cring.
  Qed.

  (* ---------------------------------------------------------------- *)
  (* translate / rotate / transform                                     *)
  (* ---------------------------------------------------------------- *)
  Theorem translate_point z0 p t : wf_bez p ->
    bez_point N (bez_translate N z0 p) t = bez_point N p t + z0.
  Proof. intros. unfold bez_translate. now rewrite (bez_point_affine (translate_affine z0)). Qed.
  Theorem translate_bern_all z0 p t : p <> [] ->
    bern N (bez_translate N z0 p) t = bern N p t + z0.
  Proof. intros. unfold bez_translate. now rewrite (bern_affine_all (translate_affine z0)). Qed.

  Theorem rotate_point_commutes cs origin p t : wf_bez p ->
    bez_point N (bez_rotate N cs origin p) t = rotate_point N cs origin (bez_point N p t).
  Proof. intros. unfold bez_rotate. now rewrite (bez_point_affine (rotate_affine cs origin)). Qed.
  Theorem rotate_bern_all cs origin p t : p <> [] ->
    bern N (bez_rotate N cs origin p) t = rotate_point N cs origin (bern N p t).
  Proof. intros. unfold bez_rotate. now rewrite (bern_affine_all (rotate_affine cs origin)). Qed.

  (* rotate_point IS the rotation about origin when c^2 + s^2 = 1: it fixes
     origin and preserves squared distances *)
  Lemma rotate_point_fixes cs origin : rotate_point N cs origin origin = origin.
  Proof. unfold rotate_point. cring. Qed.
  Lemma rotate_point_isometry cs origin z w :
    cnorm2 N cs = one N ->
    cnorm2 N (csub N (rotate_point N cs origin z) (rotate_point N cs origin w))
    = cnorm2 N (csub N z w).
  Proof.
    destruct cs as [c s], origin as [ox oy], z as [zx zy], w as [wx wy].
    unfold rotate_point. cunfold. intros H.
    transitivity (mul N (add N (mul N c c) (mul N s s))
                      (add N (mul N (sub N zx wx) (sub N zx wx)) (mul N (sub N zy wy) (sub N zy wy)))).
    - ring.
    - rewrite H. ring.
  Qed.

  Theorem transform_point_commutes (M : Mat3 K) p t : wf_bez p ->
    bez_point N (map (tf_point N M) p) t = tf_point N M (bez_point N p t).
  Proof. intros. now rewrite (bez_point_affine (tf_affine M)). Qed.
  Theorem transform_bern_all (M : Mat3 K) p t : p <> [] ->
    bern N (map (tf_point N M) p) t = tf_point N M (bern N p t).
  Proof. intros. now rewrite (bern_affine_all (tf_affine M)). Qed.

  (* the identity short-cut returns what the general branch would compute *)
  Definition mat_id : Mat3 K :=
    ((one N, zero N, zero N), (zero N, one N, zero N), (zero N, zero N, one N)).
  Lemma tf_point_id z : tf_point N mat_id z = z.
  Proof. unfold tf_point, mat_id. cring. Qed.
  Lemma identity_shortcut_sound p : map (tf_point N mat_id) p = p.
  Proof. induction p as [|a p IH]; [reflexivity|]. cbn [map]. now rewrite tf_point_id, IH. Qed.
  Lemma identity_shortcut_taken (M : Mat3 K) p : mat_is_identity N M = true -> bez_transform N M p = p.
  Proof. unfold bez_transform. now intros ->. Qed.
  Lemma general_branch (M : Mat3 K) p : mat_is_identity N M = false ->
    bez_transform N M p = map (tf_point N M) p.
  Proof. unfold bez_transform. now intros ->. Qed.

  (* ---------------------------------------------------------------- *)
  (* scale: the bez2poly / poly2bez route scales every control point    *)
  (* ---------------------------------------------------------------- *)
  Ltac list_cfield :=
    intros; destruct_cplx;
    unfold scale_bezier, bezier2polynomial, add_last, poly2bez, scale_point, scale_c;
    cbn [map]; cunfold; cbn [lit of_pos fst snd];
    f_equal; repeat (f_equal; try (apply cplx_eq; cbn [fst snd]; field; numnz OK)).

  Lemma scale_bezier_line sx sy origin a b :
    scale_bezier N sx sy origin [a; b] = XOk (map (scale_point N sx sy origin) [a; b]).
  Proof. destruct sy; list_cfield. Qed.
  Lemma scale_bezier_quad sx sy origin a b c :
    scale_bezier N sx sy origin [a; b; c] = XOk (map (scale_point N sx sy origin) [a; b; c]).
  Proof. destruct sy; list_cfield. Qed.
  Lemma scale_bezier_cubic sx sy origin a b c d :
    scale_bezier N sx sy origin [a; b; c; d] = XOk (map (scale_point N sx sy origin) [a; b; c; d]).
  Proof. destruct sy; list_cfield. Qed.

  Theorem scale_bezier_eq sx sy origin p : wf_bez p ->
    scale_bezier N sx sy origin p = XOk (map (scale_point N sx sy origin) p).
  Proof.
    intros [H|[H|H]]; destruct p as [|a [|b [|c [|d [|e r]]]]]; cbn [length] in H; try lia.
    - apply scale_bezier_line.
    - apply scale_bezier_quad.
    - apply scale_bezier_cubic.
  Qed.

  Theorem scale_point_commutes sx sy origin p t : wf_bez p ->
    exists q, scale_bezier N sx sy origin p = XOk q /\ wf_bez q /\
              bez_point N q t = scale_point N sx sy origin (bez_point N p t).
  Proof.
    intros Hw. exists (map (scale_point N sx sy origin) p). split; [|split].
    - now apply scale_bezier_eq.
    - now apply wf_map.
    - now rewrite (bez_point_affine (scale_affine sx sy origin)).
  Qed.

  (* the documented special case: uniform scaling is ((z - origin) * sx) + origin *)
  Lemma scale_point_uniform sx origin z :
    scale_point N sx None origin z = cscale N sx (csub N z origin) + origin.
  Proof. reflexivity. Qed.

  (* default origin of rotate for a Bezier segment is a point of the segment *)
  Lemma default_origin_on_curve p : bez_default_origin N p = bez_point N p (half N).
  Proof. reflexivity. Qed.

  (* ---------------------------------------------------------------- *)
  (* whole-segment statements for the Bezier constructors of Seg        *)
  (* ---------------------------------------------------------------- *)
  Section SegLevel.
    Variable T : NumT K.
    Theorem seg_translate_bez z0 p t : wf_bez p ->
      exists s', seg_translate N T z0 (SBez p) = XOk s' /\
                 seg_point N T s' t = seg_point N T (SBez p) t + z0.
    Proof.
      intros Hw. exists (SBez (bez_translate N z0 p)). split.
      - cbn [seg_translate]. unfold bez_translate.
        now rewrite (bpoints2bezier_wf _ (wf_map _ _ Hw)).
      - cbn [seg_point]. now apply translate_point.
    Qed.
    Theorem seg_rotate_bez degs cs origin p t : wf_bez p ->
      let o := match origin with Some o => o | None => bez_point N p (half N) end in
      exists s', seg_rotate N T degs cs origin (SBez p) = XOk s' /\
                 seg_point N T s' t = rotate_point N cs o (seg_point N T (SBez p) t).
    Proof.
      intros Hw o. exists (SBez (bez_rotate N cs o p)). split.
      - cbn [seg_rotate]. unfold bez_rotate.
        rewrite (bpoints2bezier_wf _ (wf_map _ _ Hw)). destruct origin; reflexivity.
      - cbn [seg_point]. now apply rotate_point_commutes.
    Qed.
    Theorem seg_scale_bez sx sy origin p t : wf_bez p ->
      exists s', seg_scale N T sx sy origin (SBez p) = XOk s' /\
                 seg_point N T s' t = scale_point N sx sy origin (seg_point N T (SBez p) t).
    Proof.
      intros Hw. exists (SBez (map (scale_point N sx sy origin) p)). split.
      - cbn [seg_scale]. now rewrite (scale_bezier_eq sx sy origin p Hw).
      - cbn [seg_point]. now rewrite (bez_point_affine (scale_affine sx sy origin)).
    Qed.
    Theorem seg_transform_bez tfx eig (M : Mat3 K) p t : wf_bez p ->
      mat_is_identity N M = false ->
      exists s', seg_transform N T tfx eig M (SBez p) = XOk s' /\
                 seg_point N T s' t = tf_point N M (seg_point N T (SBez p) t).
    Proof.
      intros Hw Hid. exists (SBez (map (tf_point N M) p)). split.
      - cbn [seg_transform]. rewrite Hid. now rewrite (bpoints2bezier_wf _ (wf_map _ _ Hw)).
      - cbn [seg_point]. now apply transform_point_commutes.
    Qed.
  End SegLevel.
End XF.
