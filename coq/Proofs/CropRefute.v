(* Proofs/CropRefute.v — the model of Path.cropped executed on exact rationals
   (NumQ) with Line segments: non-vacuity witnesses for the theorems of
   Proofs/CropPath.v and closed counter-examples (vm_compute) for the inputs on
   which the faithful model of the current code violates property C09.
   The T2t answers are the ones Path.T2t returns on the real code for these
   paths (all segments have length 1, so T2t(T) = (k, n*T - k)); the harness
   tools/harness/c09.py replays every example here on the implementation. *)
From Coq Require Import ZArith QArith Qcanon List Bool.
From SVP Require Import Base.Num Base.Cplx Model.Bezier Model.Crop Proofs.CropPath.
Import ListNotations.

Definition LineQ : Type := (Cplx Qc * Cplx Qc)%type.
Definition lq (a b c d : Z) : LineQ := ((qc a 1, qc b 1), (qc c 1, qc d 1)).   (* integer end points *)
Definition lq_crop (s : LineQ) (a b : Qc) : res LineQ := Ok (line_cropped NumQ (fst s) (snd s) a b).
Definition lq_eq (s s' : LineQ) : bool := ceqb NumQ (fst s) (fst s') && ceqb NumQ (snd s) (snd s').
Definition lq_pt (s : LineQ) (t : Qc) : Cplx Qc := line_point NumQ (fst s) (snd s) t.
(* length of an axis-parallel Line = |dx| + |dy| *)
Definition lq_len (s : LineQ) : Qc :=
  let d := csub NumQ (snd s) (fst s) in (nabs NumQ (fst d) + nabs NumQ (snd d))%Qc.
Definition lq_cropped := path_cropped NumQ lq_crop lq_eq (np_atol NumQ) (np_rtol NumQ).
(* results are shown as plain (reduced) rationals: [this] of a canonical Qc *)
Definition total_len (ps : list (piece LineQ Qc)) : Q :=
  this (fold_right Qcplus (Q2Qc 0) (map lq_len (piece_segs ps))).
Definition shape_of (ps : list (piece LineQ Qc)) : list (bool * nat * Q * Q) :=
  map (fun p => (p_orig p, p_idx p, this (p_a p), this (p_b p))) ps.
Definition cq2 (z : Cplx Qc) : Q * Q := (this (fst z), this (snd z)).
Definition res_map {A B} (f : A -> B) (r : res A) : res B :=
  match r with Ok a => Ok (f a) | Err e => Err e end.

(* the unit square 0 -> 1 -> 1+i -> i -> 0, closed, four segments of length 1 *)
Definition square : list LineQ := [lq 0 0 1 0; lq 1 0 1 1; lq 1 1 0 1; lq 0 1 0 0].
(* an open staircase 0 -> 1 -> 1+i -> 2+i, three segments of length 1 *)
Definition stairs : list LineQ := [lq 0 0 1 0; lq 1 0 1 1; lq 1 1 2 1].
(* a closed path that runs over Line(0,1) twice: 0->1->1+i->i->0->1->0 *)
Definition twice : list LineQ :=
  [lq 0 0 1 0; lq 1 0 1 1; lq 1 1 0 1; lq 0 1 0 0; lq 0 0 1 0; lq 1 0 0 0].

(* ---------------- non-vacuity: the model behaves on ordinary inputs ---------------- *)
(* square.cropped(1/8, 7/8): T2t(1/8) = (0, 1/2), T2t(7/8) = (3, 1/2) *)
Example crop_square_forward :
  res_map shape_of (lq_cropped square (qc 1 8) (qc 7 8) (Ok (0%Z, qc 1 2)) (Ok (3%Z, qc 1 2)) (Ok true))
  = Ok [(false, 0%nat, 1 # 2, 1 # 1); (true, 1%nat, 0 # 1, 1 # 1); (true, 2%nat, 0 # 1, 1 # 1);
        (false, 3%nat, 0 # 1, 1 # 2)]
  /\ res_map total_len (lq_cropped square (qc 1 8) (qc 7 8) (Ok (0%Z, qc 1 2)) (Ok (3%Z, qc 1 2)) (Ok true))
     = Ok (3 # 1).
Proof. split; vm_compute; reflexivity. Qed.
(* wrap-around: square.cropped(7/8, 1/8) = last half of segment 3, then first half of segment 0 *)
Example crop_square_wrap :
  res_map shape_of (lq_cropped square (qc 7 8) (qc 1 8) (Ok (3%Z, qc 1 2)) (Ok (0%Z, qc 1 2)) (Ok true))
  = Ok [(false, 3%nat, 1 # 2, 1 # 1); (false, 0%nat, 0 # 1, 1 # 2)]
  /\ res_map total_len (lq_cropped square (qc 7 8) (qc 1 8) (Ok (3%Z, qc 1 2)) (Ok (0%Z, qc 1 2)) (Ok true))
     = Ok (1 # 1).
Proof. split; vm_compute; reflexivity. Qed.
(* T1 < T0 on an open path: ValueError *)
Example crop_stairs_wrap_raises :
  lq_cropped stairs (qc 5 6) (qc 1 6) (Ok (2%Z, qc 1 2)) (Ok (0%Z, qc 1 2)) (Ok false) = Err EValue.
Proof. vm_compute; reflexivity. Qed.
(* T0 == 1 on a closed path is redirected to T0 = 0 *)
Example crop_square_redirect :
  res_map shape_of (lq_cropped square (qc 1 1) (qc 1 8) (Ok (3%Z, qc 1 1)) (Ok (0%Z, qc 1 2)) (Ok true))
  = Ok [(false, 0%nat, 0 # 1, 1 # 2)].
Proof. vm_compute; reflexivity. Qed.

(* ---------------- refutations ---------------- *)
(* (1) index() returns the FIRST EQUAL segment.  twice.cropped(2/15, 43/60):
   T2t(2/15) = (0, 4/5), T2t(43/60) = (4, 3/10); the crop should run over
   segments 0..4 and have length 1/5 + 3 + 3/10 = 7/2, but segment 4 == segment 0,
   so i1 = index(seg1) = 0 = i0 and the result is the single backwards piece
   Line(4/5, 3/10) of length 1/2. *)
Example crop_duplicate_segment :
  res_map shape_of (lq_cropped twice (qc 2 15) (qc 43 60) (Ok (0%Z, qc 4 5)) (Ok (4%Z, qc 3 10)) (Ok true))
  = Ok [(false, 0%nat, 4 # 5, 3 # 10)]
  /\ res_map total_len (lq_cropped twice (qc 2 15) (qc 43 60) (Ok (0%Z, qc 4 5)) (Ok (4%Z, qc 3 10)) (Ok true))
     = Ok (1 # 2)
  /\ ~ (1 # 2 == 7 # 2)%Q.
Proof. repeat split; try (vm_compute; reflexivity). intros H. discriminate H. Qed.

(* (2) np.isclose(t_seg0, 1) hands over to segment (i+1) % len EVEN ON AN OPEN
   PATH and for the LAST segment: stairs.cropped(1 - 2^-22, 1):
   T2t(1 - 2^-22) = (2, 1 - 3*2^-22), |t - 1| = 7.2e-7 <= 1e-8 + 1e-5, so
   i0 = (2+1) % 3 = 0, t0 = 0: the result is the WHOLE path (length 3 instead
   of 2^-22 * 3), starting at point(0) = 0 instead of point(T0). *)
Definition T_near1 : Qc := (Q2Qc 1 - Q2Qc (1 # (2 ^ 22)))%Qc.
Definition t_near1 : Qc := (Q2Qc 1 - Q2Qc (3 # (2 ^ 22)))%Qc.
Example crop_handover_wraps :
  res_map shape_of (lq_cropped stairs T_near1 (qc 1 1) (Ok (2%Z, t_near1)) (Ok (2%Z, qc 1 1)) (Ok false))
  = Ok [(false, 0%nat, 0 # 1, 1 # 1); (true, 1%nat, 0 # 1, 1 # 1); (false, 2%nat, 0 # 1, 1 # 1)]
  /\ res_map (fun ps => cq2 (lq_pt (hd (lq 0 0 0 0) (piece_segs ps)) (Q2Qc 0)))
       (lq_cropped stairs T_near1 (qc 1 1) (Ok (2%Z, t_near1)) (Ok (2%Z, qc 1 1)) (Ok false))
     = Ok (0 # 1, 0 # 1)
  /\ cq2 (lq_pt (lq 1 1 2 1) t_near1) = (8388605 # 4194304, 1 # 1).
Proof. repeat split; vm_compute; reflexivity. Qed.

(* (3) both hand-overs at one joint: stairs.cropped(1/3 - 2^-40, 1/3 + 2^-40):
   T2t(T0) = (0, 1 - 3*2^-40) -> handed over to (1, 0);
   T2t(T1) = (1, 3*2^-40)     -> handed over to (0, 1);
   T0 < T1 and i0 = 1 <> i1 = 0, so the result is [segment 1 whole; segment 0 whole]:
   two whole segments in the wrong order, not joined (1+i <> 0), length 2 for a
   crop of length 6*2^-40. *)
Definition eps40 : Qc := Q2Qc (1 # (2 ^ 40)).
Example crop_across_joint :
  let r := lq_cropped stairs (qc 1 3 - eps40)%Qc (qc 1 3 + eps40)%Qc
                      (Ok (0%Z, (Q2Qc 1 - Q2Qc 3 * eps40)%Qc)) (Ok (1%Z, (Q2Qc 3 * eps40)%Qc)) (Ok false) in
  res_map shape_of r = Ok [(false, 1%nat, 0 # 1, 1 # 1); (false, 0%nat, 0 # 1, 1 # 1)]
  /\ res_map (fun ps => match piece_segs ps with
                        | [a; b] => ceqb NumQ (lq_pt a (Q2Qc 1)) (lq_pt b (Q2Qc 0))
                        | _ => true end) r = Ok false.
Proof. split; vm_compute; reflexivity. Qed.

(* (4) np.isclose(t_seg1, 0) at the very beginning: stairs.cropped(0, 2^-40):
   T2t(2^-40) = (0, 3*2^-40) -> i1 = (0 - 1) % 3 = 2, t1 = 1: the whole path. *)
Example crop_tiny_prefix_is_whole_path :
  res_map shape_of (lq_cropped stairs (qc 0 1) eps40 (Ok (0%Z, qc 0 1)) (Ok (0%Z, (Q2Qc 3 * eps40)%Qc)) (Ok false))
  = Ok [(false, 0%nat, 0 # 1, 1 # 1); (true, 1%nat, 0 # 1, 1 # 1); (false, 2%nat, 0 # 1, 1 # 1)].
Proof. vm_compute; reflexivity. Qed.

(* (5) T1 == 0 on a closed path: T2t(0) = (0, 0), isclose(0, 0) hands the end over to
   (len-1, 1), and the wrap-around loops then append segments 0 .. len-2 AFTER the
   segments i0+1 .. len-1: square.cropped(7/8, 0) should be the last half of segment 3
   (length 1/2); it is that half followed by one more full round (length 9/2). *)
Example crop_to_zero_extra_loop :
  res_map shape_of (lq_cropped square (qc 7 8) (qc 0 1) (Ok (3%Z, qc 1 2)) (Ok (0%Z, qc 0 1)) (Ok true))
  = Ok [(false, 3%nat, 1 # 2, 1 # 1); (true, 0%nat, 0 # 1, 1 # 1); (true, 1%nat, 0 # 1, 1 # 1);
        (true, 2%nat, 0 # 1, 1 # 1); (false, 3%nat, 0 # 1, 1 # 1)]
  /\ res_map total_len (lq_cropped square (qc 7 8) (qc 0 1) (Ok (3%Z, qc 1 2)) (Ok (0%Z, qc 0 1)) (Ok true))
     = Ok (9 # 2).
Proof. split; vm_compute; reflexivity. Qed.

(* ---------------- the repaired variants on the same inputs ---------------- *)
Definition lq_cropped_v (ix hw tz : bool) :=
  path_cropped_v NumQ lq_crop lq_eq (np_atol NumQ) (np_rtol NumQ) ix hw tz.
(* ix: indices from T2t — the crop of the twice-traversed path has its five pieces, length 7/2 *)
Example fixed_duplicate_segment :
  res_map shape_of (lq_cropped_v true false false twice (qc 2 15) (qc 43 60) (Ok (0%Z, qc 4 5)) (Ok (4%Z, qc 3 10)) (Ok true))
  = Ok [(false, 0%nat, 4 # 5, 1 # 1); (true, 1%nat, 0 # 1, 1 # 1); (true, 2%nat, 0 # 1, 1 # 1);
        (true, 3%nat, 0 # 1, 1 # 1); (false, 4%nat, 0 # 1, 3 # 10)]
  /\ res_map total_len (lq_cropped_v true false false twice (qc 2 15) (qc 43 60) (Ok (0%Z, qc 4 5)) (Ok (4%Z, qc 3 10)) (Ok true))
     = Ok (7 # 2).
Proof. split; vm_compute; reflexivity. Qed.
(* hw: no wrap around the end of an open path: the tiny last piece, length 3 * 2^-22 *)
Example fixed_handover_wraps :
  res_map shape_of (lq_cropped_v false true false stairs T_near1 (qc 1 1) (Ok (2%Z, t_near1)) (Ok (2%Z, qc 1 1)) (Ok false))
  = Ok [(false, 2%nat, 4194301 # 4194304, 1 # 1)]
  /\ res_map total_len (lq_cropped_v false true false stairs T_near1 (qc 1 1) (Ok (2%Z, t_near1)) (Ok (2%Z, qc 1 1)) (Ok false))
     = Ok (3 # 4194304).
Proof. split; vm_compute; reflexivity. Qed.
(* hw: both ends within tolerance of one joint: the two tiny pieces, in order, joined *)
Example fixed_across_joint :
  let r := lq_cropped_v false true false stairs (qc 1 3 - eps40)%Qc (qc 1 3 + eps40)%Qc
                        (Ok (0%Z, (Q2Qc 1 - Q2Qc 3 * eps40)%Qc)) (Ok (1%Z, (Q2Qc 3 * eps40)%Qc)) (Ok false) in
  res_map shape_of r = Ok [(false, 0%nat, 1099511627773 # 1099511627776, 1 # 1);
                           (false, 1%nat, 0 # 1, 3 # 1099511627776)]
  /\ res_map (fun ps => match piece_segs ps with
                        | [a; b] => ceqb NumQ (lq_pt a (Q2Qc 1)) (lq_pt b (Q2Qc 0))
                        | _ => false end) r = Ok true.
Proof. split; vm_compute; reflexivity. Qed.
Example fixed_tiny_prefix :
  res_map shape_of (lq_cropped_v false true false stairs (qc 0 1) eps40 (Ok (0%Z, qc 0 1)) (Ok (0%Z, (Q2Qc 3 * eps40)%Qc)) (Ok false))
  = Ok [(false, 0%nat, 0 # 1, 3 # 1099511627776)].
Proof. vm_compute; reflexivity. Qed.
(* tz (and hw alone as well): cropped(7/8, 0) of the closed square is the last half of segment 3 *)
Example fixed_to_zero :
  res_map shape_of (lq_cropped_v false false true square (qc 7 8) (qc 0 1) (Ok (3%Z, qc 1 2)) (Ok (0%Z, qc 0 1)) (Ok true))
  = Ok [(false, 3%nat, 1 # 2, 1 # 1)]
  /\ res_map total_len (lq_cropped_v false false true square (qc 7 8) (qc 0 1) (Ok (3%Z, qc 1 2)) (Ok (0%Z, qc 0 1)) (Ok true))
     = Ok (1 # 2)
  /\ res_map shape_of (lq_cropped_v false true false square (qc 7 8) (qc 0 1) (Ok (3%Z, qc 1 2)) (Ok (0%Z, qc 0 1)) (Ok true))
     = Ok [(false, 3%nat, 1 # 2, 1 # 1)].
Proof. repeat split; vm_compute; reflexivity. Qed.
(* the repaired variants leave ordinary crops unchanged *)
Example fixed_ordinary_unchanged :
  lq_cropped_v true true true square (qc 1 8) (qc 7 8) (Ok (0%Z, qc 1 2)) (Ok (3%Z, qc 1 2)) (Ok true)
  = lq_cropped square (qc 1 8) (qc 7 8) (Ok (0%Z, qc 1 2)) (Ok (3%Z, qc 1 2)) (Ok true)
  /\ lq_cropped_v true true true square (qc 7 8) (qc 1 8) (Ok (3%Z, qc 1 2)) (Ok (0%Z, qc 1 2)) (Ok true)
     = lq_cropped square (qc 7 8) (qc 1 8) (Ok (3%Z, qc 1 2)) (Ok (0%Z, qc 1 2)) (Ok true).
Proof. split; vm_compute; reflexivity. Qed.

(* ---------------- the contracts used in CropPath.v hold for this instance ---------------- *)
Lemma lq_crop_ends : forall s a b s', lq_crop s a b = Ok s' ->
  lq_pt s' (zero NumQ) = lq_pt s a /\ lq_pt s' (one NumQ) = lq_pt s b.
Proof.
  intros [[sx sy] [ex ey]] a b s' H. inversion H; subst s'. clear H.
  unfold lq_pt, line_cropped, line_point. cunfold. cbn [fst snd zero one NumQ add sub mul].
  split; apply cplx_eq; cbn [fst snd]; ring.
Qed.
