(* BigF.v — execution instance of Num / NumT on arbitrary-precision binary
   floats of the Interval library (SpecificFloat BigIntRadix2, 120-bit
   rounding, transcendental functions = midpoint of Interval's enclosure of
   the point interval).  It is used ONLY by the correspondence check, to run
   the models that contain sqrt / trig / ln on the exact binary64 inputs of the
   implementation with ~1e-30 relative accuracy — thirteen orders of magnitude
   finer than binary64, so |impl - model| <= tol is decided reliably.  It is
   not used in any theorem; the accuracy of these evaluations is a trusted-base
   item ("unverified enclosure" in DESIGN §2). *)
From Coq Require Import ZArith List Bool.
From Interval Require Import Specific_bigint Specific_ops Float_full Float Basic Xreal.
From Bignums Require Import BigZ.
From SVP Require Import Base.Num.
Import ListNotations.

Module F := SpecificFloat BigIntRadix2.
Module I := FloatIntervalFull F.

Definition bf := F.type.
Definition bprec : F.precision := F.PtoP 120.

Definition bf_of (m e : Z) : bf := Specific_ops.Float (BigZ.of_Z m) (BigZ.of_Z e).   (* m * 2^e, exact *)
Definition bf_eqb (x y : bf) : bool := match F.cmp x y with Xeq => true | _ => false end.
Definition bf_ltb (x y : bf) : bool := match F.cmp x y with Xlt => true | _ => false end.
Definition bf_leb (x y : bf) : bool := match F.cmp x y with Xlt | Xeq => true | _ => false end.
Definition pt (x : bf) : I.type := I.bnd x x.
Definition mid (i : I.type) : bf := I.midpoint i.

Definition NumB : Num bf :=
  mkNum (F.fromZ 0) (F.fromZ 1)
        (F.add_UP bprec) (F.sub_UP bprec) (F.mul_UP bprec) (F.div_UP bprec) F.neg
        (fun x => F.div_UP bprec (F.fromZ 1) x)
        bf_eqb bf_ltb bf_leb.

Definition bf_sqrt (x : bf) : bf := F.sqrt_UP bprec x.
Definition bf_pi : bf := mid (I.pi bprec).
Definition bf_atan (x : bf) : bf := mid (I.atan bprec (pt x)).
Definition bf_one := F.fromZ 1.
(* acos / asin through atan (the Interval library has no inverse sine/cosine) *)
Definition bf_asin (x : bf) : bf :=
  let one_m := F.sub_UP bprec bf_one (F.mul_UP bprec x x) in
  if bf_leb one_m (F.fromZ 0) then
    (if bf_ltb x (F.fromZ 0) then F.neg (F.div2 bf_pi) else F.div2 bf_pi)
  else bf_atan (F.div_UP bprec x (bf_sqrt one_m)).
Definition bf_acos (x : bf) : bf := F.sub_UP bprec (F.div2 bf_pi) (bf_asin x).

Definition NumTB : NumT bf :=
  mkNumT bf_sqrt
         (fun x => mid (I.cos bprec (pt x))) (fun x => mid (I.sin bprec (pt x)))
         (fun x => mid (I.tan bprec (pt x)))
         bf_acos bf_asin bf_atan
         (fun x => mid (I.ln bprec (pt x)))
         bf_pi
         (fun x y => bf_sqrt (F.add_UP bprec (F.mul_UP bprec x x) (F.mul_UP bprec y y)))
         (fun d => F.div_UP bprec (F.mul_UP bprec d bf_pi) (F.fromZ 180))
         (fun r => F.div_UP bprec (F.mul_UP bprec r (F.fromZ 180)) bf_pi).

(* comparison helpers for case files *)
Definition babs (x : bf) : bf := F.abs x.
Definition bclose (tol a b : bf) : bool := bf_leb (babs (F.sub_UP bprec a b)) tol.
Definition bcclose (tol : bf) (a b : bf * bf) : bool :=
  bclose tol (fst a) (fst b) && bclose tol (snd a) (snd b).
Definition bmax (x y : bf) : bf := if bf_ltb x y then y else x.
