(* Poly.v — dense polynomials as coefficient lists in numpy order (highest
   degree first), real coefficients over K and complex coefficients over
   Cplx K evaluated at a real parameter.  peval is numpy.polyval's loop
   y := y*x + c. *)
From Coq Require Import ZArith List Bool.
From SVP Require Import Base.Num Base.Cplx.
Import ListNotations.
Set Implicit Arguments.

Section Poly.
  Context {K : Type} (N : Num K).

  Definition peval (p : list K) (x : K) : K :=
    fold_left (fun y c => add N (mul N y x) c) p (zero N).
  Definition cpeval (p : list (Cplx K)) (x : K) : Cplx K :=
    fold_left (fun y c => cadd N (cscale N x y) c) p (c0 N).

  (* derivative: [c_n; ...; c_1; c_0] |-> [n c_n; ...; 1 c_1] *)
  Fixpoint pderiv (p : list K) : list K :=
    match p with
    | [] => []
    | c :: q => match q with
                | [] => []
                | _ => mul N (lit N (Z.of_nat (length q))) c :: pderiv q
                end
    end.
  Fixpoint cpderiv (p : list (Cplx K)) : list (Cplx K) :=
    match p with
    | [] => []
    | c :: q => match q with
                | [] => []
                | _ => cscale N (lit N (Z.of_nat (length q))) c :: cpderiv q
                end
    end.
  Fixpoint iter {A} (f : A -> A) (n : nat) (x : A) : A :=
    match n with O => x | S m => iter f m (f x) end.

  (* antiderivative with zero constant term (numpy poly1d.integ) *)
  Fixpoint pinteg (p : list K) : list K :=
    match p with
    | [] => [zero N]
    | c :: q => div N c (lit N (Z.of_nat (S (length q)))) :: pinteg q
    end.

  Definition padd (p q : list K) : list K :=
    let n := Nat.max (length p) (length q) in
    let pad l := repeat (zero N) (n - length l) ++ l in
    map (fun ab => add N (fst ab) (snd ab)) (combine (pad p) (pad q)).
  Definition pscale (c : K) (p : list K) : list K := map (mul N c) p.
  Fixpoint pmul (p q : list K) : list K :=
    match p with
    | [] => []
    | c :: p' => padd (pscale c q ++ repeat (zero N) (length p')) (pmul p' q)
    end.
End Poly.
