(* Cplx.v — complex numbers as pairs over a Num carrier, with the formulas
   CPython uses (float*complex is modelled as component-wise scaling, which is
   what the promoted product gives in exact arithmetic). *)
From Coq Require Import ZArith List Bool.
From SVP Require Import Base.Num.
Import ListNotations.
Set Implicit Arguments.

Definition Cplx (K : Type) := (K * K)%type.

Section Cplx.
  Context {K : Type} (N : Num K).
  Definition re (z : Cplx K) : K := fst z.
  Definition im (z : Cplx K) : K := snd z.
  Definition mkc (x y : K) : Cplx K := (x, y).
  Definition c0 : Cplx K := (zero N, zero N).
  Definition c1 : Cplx K := (one N, zero N).
  Definition ci : Cplx K := (zero N, one N).
  Definition cofr (x : K) : Cplx K := (x, zero N).
  Definition cadd (a b : Cplx K) : Cplx K := (add N (re a) (re b), add N (im a) (im b)).
  Definition csub (a b : Cplx K) : Cplx K := (sub N (re a) (re b), sub N (im a) (im b)).
  Definition copp (a : Cplx K) : Cplx K := (opp N (re a), opp N (im a)).
  Definition cmul (a b : Cplx K) : Cplx K :=
    (sub N (mul N (re a) (re b)) (mul N (im a) (im b)),
     add N (mul N (re a) (im b)) (mul N (im a) (re b))).
  Definition cscale (r : K) (a : Cplx K) : Cplx K := (mul N r (re a), mul N r (im a)).
  Definition cdivr (a : Cplx K) (r : K) : Cplx K := (div N (re a) r, div N (im a) r).
  Definition cconj (a : Cplx K) : Cplx K := (re a, opp N (im a)).
  Definition cnorm2 (a : Cplx K) : K := add N (mul N (re a) (re a)) (mul N (im a) (im a)).
  (* mathematical quotient a/b = a*conj(b)/|b|^2 *)
  Definition cdiv (a b : Cplx K) : Cplx K := cdivr (cmul a (cconj b)) (cnorm2 b).
  Definition ceqb (a b : Cplx K) : bool := eqb N (re a) (re b) && eqb N (im a) (im b).
  Definition clit (z : Z) : Cplx K := (lit N z, zero N).
  Definition csum (l : list (Cplx K)) : Cplx K := fold_left cadd l c0.
End Cplx.

Lemma cplx_eq {K} (a b : Cplx K) : fst a = fst b -> snd a = snd b -> a = b.
Proof. destruct a, b; cbn; intros; subst; reflexivity. Qed.

(* unfold every complex operation down to the carrier's operations *)
Ltac cunfold :=
  unfold cadd, csub, copp, cmul, cscale, cdivr, cdiv, cconj, cnorm2, clit,
         cofr, c0, c1, ci, mkc, re, im in *; cbn [fst snd] in *.
