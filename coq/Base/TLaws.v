(* Base/TLaws.v — the two conversion laws of the transcendental record:
   math.radians / math.degrees are the real functions x*pi/180 and x*180/pi.
   Agreement lemmas (GenAgree) may use them, so that code written with
   radians(x) and code written with x*pi/180 are the same function of the
   model over the reals; they hold at the real instance (NumTR_laws) and are
   NOT assumed of the float/BigF instances (there the two spellings differ by
   a rounding, which the correspondence tie sees). *)
From Coq Require Import Reals ZArith Lra.
From SVP Require Import Base.Num.

Record NumTLaws {K : Type} (N : Num K) (T : NumT K) : Prop := mkNumTLaws {
  radians_law : forall x, radians_ T x = div N (mul N x (pi_ T)) (lit N 180%Z);
  degrees_law : forall x, degrees_ T x = div N (mul N x (lit N 180%Z)) (pi_ T)
}.
Arguments radians_law {K N T} _ _.
Arguments degrees_law {K N T} _ _.

Lemma lit180_R : lit NumR 180%Z = 180%R.
Proof. cbv [lit NumR of_pos add mul one zero]. lra. Qed.

Lemma NumTR_laws : NumTLaws NumR NumTR.
Proof.
  split; intro x; cbn [radians_ degrees_ NumTR]; rewrite lit180_R; reflexivity.
Qed.

(* The three order facts Arc._parameterize's Python evaluates STATICALLY (`0 >= 0`, `180 >= 0`,
   `180 <= 0` on ints, when delta has just been set to the int 0 or 180) and the model states with
   the carrier's comparison.  They hold at the real instance. *)
Record NumOrdFacts {K : Type} (N : Num K) : Prop := mkNumOrdFacts {
  leb_0_0 : leb N (zero N) (zero N) = true;
  leb_0_180 : leb N (zero N) (lit N 180%Z) = true;
  leb_180_0 : leb N (lit N 180%Z) (zero N) = false
}.
Arguments leb_0_0 {K N} _.
Arguments leb_0_180 {K N} _.
Arguments leb_180_0 {K N} _.

Lemma NumR_ordfacts : NumOrdFacts NumR.
Proof.
  split.
  - apply Rle_b_true. cbn. lra.
  - apply Rle_b_true. rewrite lit180_R. cbn. lra.
  - apply Rle_b_false. rewrite lit180_R. cbn. lra.
Qed.
