(* Base/TLaws.v — the two conversion laws of the transcendental record:
   math.radians / math.degrees are the real functions x*pi/180 and x*180/pi.
   Agreement lemmas (GenAgree) may use them, so that code written with
   radians(x) and code written with x*pi/180 are the same function of the
   model over the reals; they hold at the real instance (NumTR_laws) and are
   NOT assumed of the float/BigF instances (there the two spellings differ by
   a rounding, which the correspondence tie sees). *)
From Coq Require Import Reals ZArith Lra.
From SVP Require Import Base.Num.

Record NumTLaws {K : Type} (N : Num K) (T : NumT K) : Prop := mkNumTLaws {
  radians_law : forall x, radians_ T x = div N (mul N x (pi_ T)) (lit N 180%Z);
  degrees_law : forall x, degrees_ T x = div N (mul N x (lit N 180%Z)) (pi_ T)
}.
Arguments radians_law {K N T} _ _.
Arguments degrees_law {K N T} _ _.

Lemma lit180_R : lit NumR 180%Z = 180%R.
Proof. cbv [lit NumR of_pos add mul one zero]. lra. Qed.

Lemma NumTR_laws : NumTLaws NumR NumTR.
Proof.
  split; intro x; cbn [radians_ degrees_ NumTR]; rewrite lit180_R; reflexivity.
Qed.
