(* FieldTac.v — helper lemmas for proving algebraic identities over an
   arbitrary carrier satisfying NumFieldOK.  Usage in a proof file:

     Section S.
       Context {K : Type} (N : Num K) (OK : NumFieldOK N).
       Add Field KF : (Fth OK).
       ...  intros; cunfold; cbn [lit of_pos]; ring / field; auto with numok.
     End S.
*)
From Coq Require Import ZArith Field.
From SVP Require Import Base.Num.
Set Implicit Arguments.

Section Lemmas.
  Context {K : Type} (N : Num K) (OK : NumFieldOK N).
  Add Field KF : (Fth OK).

  Lemma lit_pos_nz p : lit N (Zpos p) <> zero N.
  Proof. cbn [lit]. apply (char0 OK). Qed.
  Lemma one_nz : one N <> zero N.
  Proof. exact (char0 OK xH). Qed.
  Lemma two_nz : add N (one N) (one N) <> zero N.
  Proof. exact (char0 OK 2%positive). Qed.
  Lemma three_nz : add N (one N) (add N (one N) (one N)) <> zero N.
  Proof. exact (char0 OK 3%positive). Qed.
  Lemma four_nz : add N (add N (one N) (one N)) (add N (one N) (one N)) <> zero N.
  Proof. exact (char0 OK 4%positive). Qed.
  Lemma of_pos_nz p : of_pos N p <> zero N.
  Proof. apply (char0 OK). Qed.
End Lemmas.

#[export] Hint Resolve lit_pos_nz one_nz two_nz three_nz four_nz of_pos_nz : numok.

(* side conditions left by [field] have the projections unfolded; they are
   convertible to [of_pos N p <> zero N] for the literal p that was divided by *)
Ltac numnz OK :=
  repeat split;
  first [ exact (char0 OK 1%positive) | exact (char0 OK 2%positive)
        | exact (char0 OK 3%positive) | exact (char0 OK 4%positive)
        | exact (char0 OK 5%positive) | exact (char0 OK 6%positive)
        | exact (char0 OK 7%positive) | exact (char0 OK 8%positive)
        | exact (char0 OK 9%positive) | exact (char0 OK 10%positive)
        | exact (char0 OK 12%positive) | exact (char0 OK 16%positive)
        | exact (char0 OK 20%positive) | exact (char0 OK 24%positive)
        | exact (char0 OK 32%positive) | exact (char0 OK 64%positive)
        | exact (char0 OK 128%positive) | exact (char0 OK 256%positive)
        | assumption ].
