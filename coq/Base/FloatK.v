(* FloatK.v — bit-exact binary64 instance of Num on Coq's primitive floats
   (PrimFloat only: importing Floats would drag axioms into coqchk -o).
   Used for witnesses where the property is ABOUT float equality / rounding
   (closed Examples by vm_compute) and for bit-exact loop replays. *)
From Coq Require Import ZArith PrimFloat Uint63 Bool.
From SVP Require Import Base.Num.

Definition NumF : Num float :=
  mkNum 0%float 1%float PrimFloat.add PrimFloat.sub PrimFloat.mul PrimFloat.div
        PrimFloat.opp (fun x => PrimFloat.div 1%float x)
        PrimFloat.eqb PrimFloat.ltb PrimFloat.leb.

Definition fabs (x : float) : float := PrimFloat.abs x.
(* neighbours in the binary64 grid *)
Definition fnext (x : float) : float := PrimFloat.next_up x.
Definition fprev (x : float) : float := PrimFloat.next_down x.
(* |a - b| <= k ulps, measured with the spacing at max(|a|,|b|) *)
Definition ulp_of (x : float) : float := PrimFloat.sub (fnext (fabs x)) (fabs x).
Definition fclose_ulps (k : float) (a b : float) : bool :=
  let m := if PrimFloat.ltb (fabs a) (fabs b) then fabs b else fabs a in
  PrimFloat.leb (fabs (PrimFloat.sub a b)) (PrimFloat.mul k (ulp_of m)).
Definition fsqrt (x : float) : float := PrimFloat.sqrt x.
