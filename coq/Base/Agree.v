(* Agree.v — tactics for the agreement lemmas  gen_f = model_f  (GenAgree/).
   They normalise both sides down to the carrier's operations (N is abstract,
   so full reduction is safe) and close the per-coordinate goals with ring /
   field: a semantically neutral rewrite of the Python still proves, a changed
   coefficient does not. *)
From Coq Require Import ZArith List Bool Field.
From SVP Require Import Base.Num Base.Cplx Base.Poly Base.FieldTac.
Import ListNotations.

Ltac destruct_cplx_vars :=
  repeat match goal with p : Cplx _ |- _ => destruct p end.

Ltac norm_num :=
  cbv -[add sub mul div opp inv zero one eqb ltb leb
        sqrt_ cos_ sin_ tan_ acos_ asin_ atan_ ln_ pi_ hypot_ radians_ degrees_
        Z.eqb Z.gtb Z.ltb Z.leb Z.geb].

Ltac split_struct :=
  repeat match goal with
  | |- (_, _) = (_, _) => f_equal
  | |- Some _ = Some _ => f_equal
  | |- cons _ _ = cons _ _ => f_equal
  | |- (if ?c then _ else _) = (if ?c then _ else _) => destruct c
  end.

Ltac agree_ring :=
  intros; destruct_cplx_vars; norm_num; split_struct; try reflexivity; ring.
Ltac agree_field OK :=
  intros; destruct_cplx_vars; norm_num; split_struct; try reflexivity; field; numnz OK.

(* ---- agreement up to conditionals -------------------------------------------------
   For generated code whose conditionals are VALUES or are placed differently from the
   model's: normalise, turn a/b into a*/b (so that `ring` sees through quotients), make the
   arguments of the uninterpreted functions (comparisons, min/max/abs, transcendental
   functions, inverses) syntactically equal where they are ring-equal, case-split on the
   innermost tests, close the leaves by reflexivity / ring.  The cheap path (no argument
   unification) is tried first. *)
Ltac pnorm_c :=
  cbv -[dyadic add sub mul div opp inv zero one eqb ltb leb nmin nmax nabs Bool.eqb negb andb orb
        sqrt_ cos_ sin_ tan_ acos_ asin_ atan_ ln_ pi_ hypot_ radians_ degrees_
        Z.eqb Z.gtb Z.ltb Z.leb Z.geb].
Ltac uni1 f :=
  match goal with
  | |- context [f ?x] =>
      match goal with
      | |- context [f ?y] =>
          tryif constr_eq x y then fail else (replace y with x by ring)
      end
  end.
Ltac uni2 f :=
  match goal with
  | |- context [f ?a ?b] =>
      match goal with
      | |- context [f ?c ?d] =>
          first [ tryif constr_eq a c then fail else (replace c with a by ring)
                | tryif constr_eq b d then fail else (replace d with b by ring) ]
      end
  end.
Ltac uni_all N T :=
  repeat first [ uni1 (inv N) | uni1 (sqrt_ T) | uni1 (acos_ T) | uni1 (asin_ T) | uni1 (atan_ T)
               | uni1 (degrees_ T) | uni1 (radians_ T) | uni1 (cos_ T) | uni1 (sin_ T) | uni1 (tan_ T)
               | uni1 (ln_ T) | uni2 (hypot_ T)
               | uni1 (nabs N) | uni2 (nmax N) | uni2 (nmin N)
               | uni2 (ltb N) | uni2 (leb N) | uni2 (eqb N) ].
Ltac uni_noT N :=
  repeat first [ uni1 (inv N) | uni1 (nabs N) | uni2 (nmax N) | uni2 (nmin N)
               | uni2 (ltb N) | uni2 (leb N) | uni2 (eqb N) ].
Ltac inner_if :=
  match goal with
  | |- context [if ?c then _ else _] =>
      lazymatch c with
      | context [if _ then _ else _] => fail
      | _ => destruct c eqn:?
      end
  end.
Ltac red_if := cbv beta iota; cbn [negb andb orb Bool.eqb].
Ltac split_struct' :=
  repeat match goal with
  | |- (_, _) = (_, _) => f_equal
  | |- Some _ = Some _ => f_equal
  | |- cons _ _ = cons _ _ => f_equal
  end.
Ltac cases_finish := split_struct'; try reflexivity; ring.
Ltac cases_cheap := repeat (inner_if; red_if); cases_finish.
(* with the transcendental record T / without it *)
Ltac agree_cases OK N T :=
  intros; destruct_cplx_vars; pnorm_c; rewrite ?(Fdiv_def (Fth OK));
  first [ solve [cases_cheap]
        | solve [uni_all N T; repeat (inner_if; red_if; uni_all N T); cases_finish] ].
Ltac agree_cases_noT OK N :=
  intros; destruct_cplx_vars; pnorm_c; rewrite ?(Fdiv_def (Fth OK));
  first [ solve [cases_cheap]
        | solve [uni_noT N; repeat (inner_if; red_if; uni_noT N); cases_finish] ].
