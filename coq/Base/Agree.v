(* Agree.v — tactics for the agreement lemmas  gen_f = model_f  (GenAgree/).
   They normalise both sides down to the carrier's operations (N is abstract,
   so full reduction is safe) and close the per-coordinate goals with ring /
   field: a semantically neutral rewrite of the Python still proves, a changed
   coefficient does not. *)
From Coq Require Import ZArith List Bool Field.
From SVP Require Import Base.Num Base.Cplx Base.Poly Base.FieldTac.
Import ListNotations.

Ltac destruct_cplx_vars :=
  repeat match goal with p : Cplx _ |- _ => destruct p end.

Ltac norm_num :=
  cbv -[add sub mul div opp inv zero one eqb ltb leb
        sqrt_ cos_ sin_ tan_ acos_ asin_ atan_ ln_ pi_ hypot_ radians_ degrees_
        Z.eqb Z.gtb Z.ltb Z.leb Z.geb].

Ltac split_struct :=
  repeat match goal with
  | |- (_, _) = (_, _) => f_equal
  | |- Some _ = Some _ => f_equal
  | |- cons _ _ = cons _ _ => f_equal
  | |- (if ?c then _ else _) = (if ?c then _ else _) => destruct c
  end.

Ltac agree_ring :=
  intros; destruct_cplx_vars; norm_num; split_struct; try reflexivity; ring.
Ltac agree_field OK :=
  intros; destruct_cplx_vars; norm_num; split_struct; try reflexivity; field; numnz OK.
