(* FieldTac2.v — products of non-zero literals are non-zero (side conditions
   of [field] such as (1+1)*(1+1) <> 0), and the corresponding tactics. *)
From Coq Require Import ZArith Field.
From SVP Require Import Base.Num Base.Cplx Base.FieldTac Base.Agree.

Section L.
  Context {K : Type} (N : Num K) (OK : NumFieldOK N).
  Add Field KF : (Fth OK).
  Lemma mul_nz a b : a <> zero N -> b <> zero N -> mul N a b <> zero N.
  Proof.
    intros Ha Hb H. apply Hb.
    transitivity (mul N (inv N a) (mul N a b)).
    - field. exact Ha.
    - rewrite H. ring.
  Qed.
End L.

Ltac numnz2 OK :=
  repeat split;
  repeat first
    [ exact (char0 OK 1%positive) | exact (char0 OK 2%positive)
    | exact (char0 OK 3%positive) | exact (char0 OK 4%positive)
    | exact (char0 OK 5%positive) | exact (char0 OK 6%positive)
    | exact (char0 OK 7%positive) | exact (char0 OK 8%positive)
    | exact (char0 OK 9%positive) | exact (char0 OK 10%positive)
    | exact (char0 OK 12%positive) | exact (char0 OK 16%positive)
    | exact (char0 OK 20%positive) | exact (char0 OK 24%positive)
    | exact (char0 OK 32%positive) | exact (char0 OK 64%positive)
    | exact (char0 OK 120%positive) | exact (char0 OK 720%positive)
    | exact (char0 OK 5040%positive) | exact (char0 OK 40320%positive)
    | assumption
    | apply (mul_nz _ OK) ].

Ltac agree_field2 OK :=
  intros; destruct_cplx_vars; norm_num; split_struct; try reflexivity; field; numnz2 OK.

(* full normalisation (closed integer arithmetic such as fac(n)//fac(n-j) is
   computed); use when no symbolic integer occurs in the goal *)
Ltac norm_num_full :=
  cbv -[add sub mul div opp inv zero one eqb ltb leb
        sqrt_ cos_ sin_ tan_ acos_ asin_ atan_ ln_ pi_ hypot_ radians_ degrees_].
Ltac agree_ring_full :=
  intros; destruct_cplx_vars; norm_num_full; split_struct; try reflexivity; ring.
Ltac agree_field_full OK :=
  intros; destruct_cplx_vars; norm_num_full; split_struct; try reflexivity; field; numnz2 OK.

(* general non-zero side conditions: evaluate the closed numeral e (built from
   one/add/mul, in whatever shape [field] leaves it) to a positive p, show
   e = of_pos N p by ring, conclude with char0. *)
Ltac posval N t :=
  lazymatch t with
  | one N => constr:(1%positive)
  | add N ?a ?b => let x := posval N a in let y := posval N b in
                   let r := eval vm_compute in (Pos.add x y) in r
  | mul N ?a ?b => let x := posval N a in let y := posval N b in
                   let r := eval vm_compute in (Pos.mul x y) in r
  end.
Ltac numnz3 N OK :=
  repeat split;
  fold (add N) (mul N) (one N) (zero N);
  first
    [ assumption
    | match goal with
      | |- ?e <> zero N =>
          let p := posval N e in
          replace e with (of_pos N p) by (cbn [of_pos]; ring);
          exact (char0 OK p)
      end ].
Ltac agree_field3 N OK :=
  intros; destruct_cplx_vars; norm_num_full; split_struct; try reflexivity; field; numnz3 N OK.

(* Linear-size numerals.  [of_pos] shares its recursive call with a let, which
   full reduction duplicates (lit N 40320 becomes a 2^16-node tree).  The
   tactics below keep [of_pos] folded during normalisation and then rewrite
   each literal into a linear-size product form. *)
Section Lin.
  Context {K : Type} (N : Num K) (OK : NumFieldOK N).
  Add Field KF2 : (Fth OK).
  Fixpoint of_pos_lin (p : positive) : K :=
    match p with
    | xH => one N
    | xO q => mul N (add N (one N) (one N)) (of_pos_lin q)
    | xI q => add N (one N) (mul N (add N (one N) (one N)) (of_pos_lin q))
    end.
  Lemma of_pos_lin_eq p : of_pos N p = of_pos_lin p.
  Proof. induction p as [q IH|q IH|]; cbn [of_pos of_pos_lin]; rewrite ?IH; ring. Qed.
End Lin.

Ltac norm_num_lin N OK :=
  cbv -[add sub mul div opp inv zero one eqb ltb leb of_pos
        sqrt_ cos_ sin_ tan_ acos_ asin_ atan_ ln_ pi_ hypot_ radians_ degrees_];
  rewrite ?(of_pos_lin_eq N OK);
  cbv [of_pos_lin].
Ltac ring_lin N OK :=
  intros; destruct_cplx_vars; norm_num_lin N OK; split_struct; ring.
Ltac field_lin N OK :=
  intros; destruct_cplx_vars; norm_num_lin N OK; split_struct; field; numnz3 N OK.
