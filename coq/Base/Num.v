(* Num.v — the record of numeric operations every model is parameterised by,
   and the instances used for theorems (R), execution (Qc) and bit-exact
   witnesses (PrimFloat, in FloatK.v). No axioms are declared here. *)
From Coq Require Import ZArith QArith Qcanon Reals Bool List Lra Lia Field.
Import ListNotations.

Set Implicit Arguments.

Record Num (K : Type) := mkNum {
  zero : K; one : K;
  add : K -> K -> K; sub : K -> K -> K; mul : K -> K -> K;
  div : K -> K -> K; opp : K -> K; inv : K -> K;
  eqb : K -> K -> bool; ltb : K -> K -> bool; leb : K -> K -> bool
}.

Arguments zero {K} _. Arguments one {K} _.
Arguments add {K} _ _ _. Arguments sub {K} _ _ _. Arguments mul {K} _ _ _.
Arguments div {K} _ _ _. Arguments opp {K} _ _. Arguments inv {K} _ _.
Arguments eqb {K} _ _ _. Arguments ltb {K} _ _ _. Arguments leb {K} _ _ _.

Section Lits.
  Context {K : Type} (N : Num K).
  (* integer literals by binary double-and-add: exact in every instance
     (in binary64 for |z| < 2^53) *)
  Fixpoint of_pos (p : positive) : K :=
    match p with
    | xH => one N
    | xO q => let x := of_pos q in add N x x
    | xI q => let x := of_pos q in add N (one N) (add N x x)
    end.
  Definition lit (z : Z) : K :=
    match z with
    | Z0 => zero N
    | Zpos p => of_pos p
    | Zneg p => opp N (of_pos p)
    end.
  Fixpoint npow (x : K) (n : nat) : K :=
    match n with O => one N | S m => mul N x (npow x m) end.
  (* m * 2^e : how binary64 literals and inputs enter a model exactly *)
  Definition dyadic (m : Z) (e : Z) : K :=
    match e with
    | Z0 => lit m
    | Zpos p => mul N (lit m) (npow (lit 2) (Pos.to_nat p))
    | Zneg p => div N (lit m) (npow (lit 2) (Pos.to_nat p))
    end.
  Definition gtb (x y : K) := ltb N y x.
  Definition geb (x y : K) := leb N y x.
  Definition neqb (x y : K) := negb (eqb N x y).
  Definition nmin (x y : K) := if ltb N y x then y else x. (* Python min: first minimal *)
  Definition nmax (x y : K) := if ltb N x y then y else x. (* Python max: first maximal *)
  Definition nabs (x : K) := if ltb N x (zero N) then opp N x else x.
  Definition nsum (l : list K) : K :=   (* Python sum(): left fold from 0 *)
    fold_left (add N) l (zero N).
End Lits.

(* ---------- R ---------- *)
Definition Req_b (x y : R) : bool := if Req_EM_T x y then true else false.
Definition Rlt_b (x y : R) : bool := if Rlt_dec x y then true else false.
Definition Rle_b (x y : R) : bool := if Rle_dec x y then true else false.
Definition NumR : Num R :=
  mkNum 0%R 1%R Rplus Rminus Rmult Rdiv Ropp Rinv Req_b Rlt_b Rle_b.

Lemma Req_b_true x y : Req_b x y = true <-> x = y.
Proof. unfold Req_b; destruct (Req_EM_T x y); split; congruence. Qed.
Lemma Rlt_b_true x y : Rlt_b x y = true <-> (x < y)%R.
Proof. unfold Rlt_b; destruct (Rlt_dec x y); split; auto; congruence. Qed.
Lemma Rle_b_true x y : Rle_b x y = true <-> (x <= y)%R.
Proof. unfold Rle_b; destruct (Rle_dec x y); split; auto; congruence. Qed.
Lemma Rlt_b_false x y : Rlt_b x y = false <-> (y <= x)%R.
Proof. unfold Rlt_b; destruct (Rlt_dec x y); split; intros; try congruence; lra. Qed.
Lemma Rle_b_false x y : Rle_b x y = false <-> (y < x)%R.
Proof. unfold Rle_b; destruct (Rle_dec x y); split; intros; try congruence; lra. Qed.

(* ---------- Qc (canonical rationals; eq is Leibniz, so the generic
   ring/field theorems instantiate here too) ---------- *)
Definition Qc_ltb (x y : Qc) : bool :=
  match Qccompare x y with Lt => true | _ => false end.
Definition Qc_leb (x y : Qc) : bool :=
  match Qccompare x y with Gt => false | _ => true end.
Definition NumQ : Num Qc :=
  mkNum (Q2Qc 0) (Q2Qc 1) Qcplus Qcminus Qcmult Qcdiv Qcopp Qcinv Qc_eq_bool Qc_ltb Qc_leb.

(* exact rational literal for the harness: z / 2^k etc. *)
Definition qc (n : Z) (d : positive) : Qc := Q2Qc (Qmake n d).
Definition qc_dy (m : Z) (e : Z) : Qc := dyadic NumQ m e.
Definition Qc_abs (x : Qc) : Qc := nabs NumQ x.

(* ---------- what "N is a field of characteristic 0" means; the generic
   (axiom-free) algebraic theorems are proved under this record, then
   instantiated at NumR and NumQ ---------- *)
Record NumFieldOK {K} (N : Num K) : Prop := {
  Fth : field_theory (zero N) (one N) (add N) (mul N) (sub N) (opp N)
                     (div N) (inv N) (@eq K);
  char0 : forall p, of_pos N p <> zero N
}.

Lemma of_pos_R p : of_pos NumR p = IZR (Zpos p).
Proof.
  induction p as [q IH|q IH|]; cbn [of_pos NumR add one]; rewrite ?IH.
  - rewrite (Pos2Z.inj_xI q), plus_IZR, mult_IZR. simpl. lra.
  - rewrite (Pos2Z.inj_xO q), mult_IZR. simpl. lra.
  - reflexivity.
Qed.
Lemma lit_R z : lit NumR z = IZR z.
Proof. destruct z; cbn [lit]; rewrite ?of_pos_R; try reflexivity. Qed.

Lemma NumR_ok : NumFieldOK NumR.
Proof. split.
  - exact Rfield.
  - intros p. rewrite of_pos_R. cbn. apply not_0_IZR. discriminate.
Qed.

Lemma of_pos_Qeq p : (this (of_pos NumQ p) == inject_Z (Zpos p))%Q.
Proof.
  induction p as [q IH|q IH|]; cbn [of_pos NumQ add one].
  - unfold Qcplus. cbn [this Q2Qc]. rewrite !Qred_correct. rewrite IH.
    rewrite (Pos2Z.inj_xI q). unfold Qeq, Qplus, inject_Z; cbn [Qnum Qden]. lia.
  - unfold Qcplus. cbn [this Q2Qc]. rewrite !Qred_correct. rewrite IH.
    rewrite (Pos2Z.inj_xO q). unfold Qeq, Qplus, inject_Z; cbn [Qnum Qden]. lia.
  - reflexivity.
Qed.

Lemma NumQ_ok : NumFieldOK NumQ.
Proof. split.
  - exact Qcft.
  - intros p H. pose proof (of_pos_Qeq p) as E. rewrite H in E.
    cbn in E. unfold Qeq, inject_Z in E; cbn in E. lia.
Qed.

(* ---------- transcendental operations (libm in the implementation) ---------- *)
Record NumT (K : Type) := mkNumT {
  sqrt_ : K -> K; cos_ : K -> K; sin_ : K -> K; tan_ : K -> K;
  acos_ : K -> K; asin_ : K -> K; atan_ : K -> K; ln_ : K -> K;
  pi_ : K; hypot_ : K -> K -> K; radians_ : K -> K; degrees_ : K -> K
}.
Arguments sqrt_ {K} _ _. Arguments cos_ {K} _ _. Arguments sin_ {K} _ _.
Arguments tan_ {K} _ _. Arguments acos_ {K} _ _. Arguments asin_ {K} _ _.
Arguments atan_ {K} _ _. Arguments ln_ {K} _ _. Arguments pi_ {K} _.
Arguments hypot_ {K} _ _ _. Arguments radians_ {K} _ _. Arguments degrees_ {K} _ _.

Definition NumTR : NumT R :=
  mkNumT sqrt cos sin tan acos asin atan ln PI
         (fun x y => sqrt (x * x + y * y))%R
         (fun d => d * PI / 180)%R (fun r => r * 180 / PI)%R.
