(* CaseLib.v — helpers used by the generated cases_*.v files: the comparison
   of the implementation's observations with the model's value is computed
   here, inside Coq, on exact rationals. *)
From Coq Require Import ZArith QArith Qcanon List Bool.
From SVP Require Import Base.Num Base.Cplx.
Import ListNotations.

Definition qabs (x : Qc) : Qc := nabs NumQ x.
Definition qle (x y : Qc) : bool := leb NumQ x y.
Definition qclose (tol a b : Qc) : bool := qle (qabs (a - b)%Qc) tol.
Definition cclose (tol : Qc) (a b : Cplx Qc) : bool :=
  qclose tol (fst a) (fst b) && qclose tol (snd a) (snd b).
Fixpoint lclose {A} (cl : A -> A -> bool) (l1 l2 : list A) : bool :=
  match l1, l2 with
  | [], [] => true
  | a :: r1, b :: r2 => cl a b && lclose cl r1 r2
  | _, _ => false
  end.
Definition oclose {A} (cl : A -> A -> bool) (o1 o2 : option A) : bool :=
  match o1, o2 with
  | None, None => true
  | Some a, Some b => cl a b
  | _, _ => false
  end.
Definition pclose {A B} (ca : A -> A -> bool) (cb : B -> B -> bool) (p q : A * B) : bool :=
  ca (fst p) (fst q) && cb (snd p) (snd q).
Definition qmax (x y : Qc) : Qc := nmax NumQ x y.
Definition cabs1 (z : Cplx Qc) : Qc := (qabs (fst z) + qabs (snd z))%Qc.
Definition sum_abs1 (l : list (Cplx Qc)) : Qc := fold_left (fun a z => (a + cabs1 z)%Qc) l (Q2Qc 0).

(* indices (from 0) of the cases on which [ok] is false *)
Fixpoint failing_from {A} (ok : A -> bool) (i : nat) (l : list A) : list nat :=
  match l with
  | [] => []
  | x :: r => if ok x then failing_from ok (S i) r else i :: failing_from ok (S i) r
  end.
Definition failing {A} (ok : A -> bool) (l : list A) : list nat := failing_from ok 0 l.

(* 2^-k as a rational *)
Definition two_pow_neg (k : positive) : Qc := Q2Qc (1 # (2 ^ k)).

(* [ok] returns 0 when every observation of the case agrees with the model,
   otherwise the number of the first observation that does not.  The result is
   the flat list [i1; c1; i2; c2; ...] of failing case indices and codes. *)
Fixpoint codes_from {A} (ok : A -> nat) (i : nat) (l : list A) : list nat :=
  match l with
  | [] => []
  | x :: r => match ok x with
              | O => codes_from ok (S i) r
              | c => i :: c :: codes_from ok (S i) r
              end
  end.
Definition run_cases {A} (ok : A -> nat) (l : list A) : list nat := codes_from ok 0 l.
(* first failing check in a list of (check, code) *)
Fixpoint first_fail (l : list (bool * nat)) : nat :=
  match l with
  | [] => 0
  | (b, c) :: r => if b then first_fail r else c
  end.
